// Command c13 runs the check for property C13 (see bin/check).
package main

import (
	_ "verif/checks/c13"
	"verif/core"
)

func main() { core.Main() }
