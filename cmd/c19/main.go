// Command c19 runs the check for property C19 (see bin/check).
package main

import (
	_ "verif/checks/c19"
	"verif/core"
)

func main() { core.Main() }
