// Command c14 runs the check for property C14 (see bin/check).
package main

import (
	_ "verif/checks/c14"
	"verif/core"
)

func main() { core.Main() }
