// Command c10 runs the check for property C10 (see bin/check).
package main

import (
	_ "verif/checks/c10"
	"verif/core"
)

func main() { core.Main() }
