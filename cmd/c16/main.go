// Command c16 runs the check for property C16 (see bin/check).
package main

import (
	_ "verif/checks/c16"
	"verif/core"
)

func main() { core.Main() }
