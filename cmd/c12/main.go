// Command c12 runs the check for property C12 (see bin/check).
package main

import (
	_ "verif/checks/c12"
	"verif/core"
)

func main() { core.Main() }
