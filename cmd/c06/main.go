// Command c06 runs the check for property C06 (see bin/check).
package main

import (
	_ "verif/checks/c06"
	"verif/core"
)

func main() { core.Main() }
