// Command c15race is the supplementary race-detector pass of C15 (build with -race). It is NOT the deciding
// enumeration: it runs the same kind of bodies as the schedule harness free-running on real goroutines
// (pass "free"), and serialised with hand-offs through raw pipe system calls that the race detector cannot see
// (pass "serial"), so that conflicting accesses between the interrupting and the running goroutine that are not
// ordered by the engine's own synchronisation are reported independent of timing.
package main

import (
	"encoding/json"
	"flag"
	"fmt"
	"os"
	"sync"
	"syscall"

	"github.com/dop251/goja"
)

const progSrc = `function main(n){ var s=0; try { for (var i=0;i<n;i++){ try { s+=i } finally { s++ } } } catch(e){ s=-1 } return s }`

type pipe struct{ r, w int }

func newPipe() pipe {
	var fds [2]int
	if err := syscall.Pipe(fds[:]); err != nil {
		panic(err)
	}
	return pipe{fds[0], fds[1]}
}

// raw, uninstrumented hand-off: no happens-before edge for the race detector
func (p pipe) signal() {
	b := [1]byte{1}
	syscall.RawSyscall(syscall.SYS_WRITE, uintptr(p.w), uintptr(unsafePointer(&b[0])), 1)
}
func (p pipe) wait() {
	var b [1]byte
	for {
		n, _, e := syscall.Syscall(syscall.SYS_READ, uintptr(p.r), uintptr(unsafePointer(&b[0])), 1)
		if e == syscall.EINTR || (e == 0 && n == 0) {
			continue
		}
		return
	}
}

func main() {
	iters := flag.Int("iters", 300, "free-running iterations")
	flag.Parse()
	res := map[string]interface{}{}
	prg := goja.MustCompile("p.js", progSrc, false)

	// pass "free": interrupter fires after a deterministic sweep of spin lengths
	interrupted, completed := 0, 0
	for i := 0; i < *iters; i++ {
		r := goja.New()
		r.RunProgram(prg)
		fn, _ := goja.AssertFunction(r.Get("main"))
		var wg sync.WaitGroup
		wg.Add(1)
		start := make(chan struct{})
		go func(spin int) {
			defer wg.Done()
			<-start
			x := 0
			for k := 0; k < spin*50; k++ {
				x += k
			}
			_ = x
			r.Interrupt(fmt.Sprint("v", spin))
		}(i)
		close(start)
		_, err := fn(goja.Undefined(), r.ToValue(2000))
		wg.Wait()
		if _, ok := err.(*goja.InterruptedError); ok {
			interrupted++
		} else {
			completed++
			r.ClearInterrupt()
		}
		// reuse after the interrupt, with a second interrupter racing the next call
		wg.Add(1)
		go func() { defer wg.Done(); r.Interrupt("again") }()
		fn(goja.Undefined(), r.ToValue(50))
		wg.Wait()
		r.ClearInterrupt()
	}
	res["free_interrupted"], res["free_completed"] = interrupted, completed

	// pass "serial": A runs a call, raw hand-off, B interrupts, raw hand-off, A runs the next call (which observes
	// the pending interrupt), B interrupts again while A is parked inside a native called by the script.
	r := goja.New()
	a2b, b2a := newPipe(), newPipe()
	r.Set("park", func(goja.FunctionCall) goja.Value { a2b.signal(); b2a.wait(); return goja.Undefined() })
	r.RunProgram(prg)
	r.RunString(`function parked(){ var s=0; for (var i=0;i<3;i++){ s+=i } park(); for (var i=0;i<1000;i++){ s+=i } return s }`)
	fn, _ := goja.AssertFunction(r.Get("main"))
	pk, _ := goja.AssertFunction(r.Get("parked"))
	done := make(chan struct{})
	go func() { // B
		for i := 0; i < 4; i++ {
			a2b.wait()
			r.Interrupt(fmt.Sprint("s", i))
			b2a.signal()
		}
		close(done)
	}()
	serial := []string{}
	for i := 0; i < 2; i++ {
		_, err := fn(goja.Undefined(), r.ToValue(10))
		serial = append(serial, fmt.Sprintf("%T", err))
		a2b.signal()
		b2a.wait()
		_, err = fn(goja.Undefined(), r.ToValue(10)) // pending interrupt delivered while idle
		serial = append(serial, fmt.Sprintf("%T", err))
		_, err = pk(goja.Undefined()) // interrupt delivered while parked in a native
		serial = append(serial, fmt.Sprintf("%T", err))
	}
	<-done
	res["serial"] = serial
	json.NewEncoder(os.Stdout).Encode(res)
}
