package main

import "unsafe"

func unsafePointer(p *byte) unsafe.Pointer { return unsafe.Pointer(p) }
