// Command c15 runs the check for property C15 (see bin/check).
package main

import (
	_ "verif/checks/c15"
	"verif/core"
)

func main() { core.Main() }
