// Command c20 runs the check for property C20 (see bin/check).
package main

import (
	_ "verif/checks/c20"
	"verif/core"
)

func main() { core.Main() }
