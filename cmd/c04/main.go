// Command c04 runs the check for property C04 (see bin/check).
package main

import (
	_ "verif/checks/c04"
	"verif/core"
)

func main() { core.Main() }
