// Command c16sched is the schedule-exploration harness of C16. Built with the sync/atomic shim overlay (vm.go,
// file/file.go) it explores ALL interleavings, up to a preemption bound, of 2..3 runtimes on real goroutines that
// run ONE shared compiled Program and use the SAME primitive values (lazily scanned imported strings,
// concatenations of them, symbols ...). Scheduling points: every VM instruction (the run loop's atomic load), every
// mutex operation of file.File, and the verifPoint hooks inside importedString's lazy scan.
// Oracle per schedule: every runtime's result equals its isolated result. Built with -race and run with --raw
// (hand-offs through raw pipe system calls) the Go race detector additionally decides data-race freedom of every
// explored schedule, with only the engine's own synchronisation as happens-before edges.
package main

import (
	"encoding/json"
	"flag"
	"fmt"
	"os"
	"strings"
	"sync/atomic"
	"time"

	"verif/checks/c16/scen"
	"verif/lib/sched"

	"github.com/dop251/goja"
)

type violation struct {
	Scenario string `json:"scenario"`
	Sig      string `json:"sig"`
	What     string `json:"what"`
	Schedule []int  `json:"schedule"`
}

type summary struct {
	Instrumented bool        `json:"instrumented"`
	Execs        int         `json:"execs"`
	Points       int         `json:"points"`
	Bound        int         `json:"bound"`
	Threads      int         `json:"threads"`
	Exhausted    bool        `json:"exhausted"`
	Scenarios    int         `json:"scenarios"`
	Outcomes     int         `json:"outcomes"`
	Violations   []violation `json:"violations"`
	Sample       interface{} `json:"sample"`
	PointKinds   []string    `json:"point_kinds"`
}

func main() {
	bound := flag.Int("bound", 1, "preemption bound")
	threads := flag.Int("threads", 2, "runtimes sharing the program and values")
	budget := flag.Int("budget", 30, "seconds")
	raw := flag.Bool("raw", false, "hand-offs through raw pipe system calls (for -race builds)")
	only := flag.String("scenario", "", "run only this scenario")
	replay := flag.String("replay", "", "comma-separated choices (with --scenario)")
	longBound := flag.Int("long-bound", 1, "preemption bound for whole-program seed scenarios")
	from := flag.Int("from", 0, "first scenario index")
	to := flag.Int("to", 1<<30, "end scenario index (exclusive)")
	flag.Parse()
	sched.Raw = *raw
	deadline := time.Now().Add(time.Duration(*budget) * time.Second)
	goja.VerifPointHook = func(name string, obj interface{}) {
		if x := sched.Active(); x != nil {
			x.Point(name, nil)
		}
	}
	sum := summary{Bound: *bound, Threads: *threads, Exhausted: true}
	// watchdog: a thread blocked on a primitive the scheduler does not see would hang the exploration for ever
	var progress atomic.Int64
	var curScenario atomic.Value
	curScenario.Store("")
	progress.Store(time.Now().UnixNano())
	go func() {
		for {
			time.Sleep(2 * time.Second)
			if time.Since(time.Unix(0, progress.Load())) > 60*time.Second {
				sum.Violations = append(sum.Violations, violation{Scenario: curScenario.Load().(string), Sig: "hang", What: "an execution did not finish within 60 s: a goroutine is blocked on a synchronisation primitive the scheduler does not control (or the engine dead-locked)", Schedule: sched.CurrentPrefix})
				sum.Exhausted = false
				json.NewEncoder(os.Stdout).Encode(sum)
				os.Exit(0)
			}
		}
	}()
	outcomes := map[string]bool{}
	kinds := map[string]bool{}
	for si, sc := range scen.Scenarios() {
		if *only != "" && sc.Name != *only || *only == "" && (si < *from || si >= *to) {
			continue
		}
		sum.Scenarios++
		prg, err := goja.Compile("c16.js", sc.Src, false)
		if err != nil {
			if !sc.Long { // seed programs that goja rejects are simply not part of the space
				sum.Violations = append(sum.Violations, violation{Scenario: sc.Name, Sig: "harness|compile", What: err.Error()})
			}
			continue
		}
		// isolated result: fresh runtime, fresh shared values, nothing else running
		s0, t0 := scen.Shared(sc.Shared)
		isolated := scen.RunOne(goja.New(), prg, s0, t0)
		_ = prg
		outcomes[sc.Name+"="+isolated] = true
		var results []string
		mk := func() []func() {
			progress.Store(time.Now().UnixNano())
			curScenario.Store(sc.Name)
			if *raw {
				fmt.Fprintf(os.Stderr, "SCHEDULE %s %s\n", sc.Name, strings.Trim(strings.ReplaceAll(fmt.Sprint(sched.CurrentPrefix), " ", ","), "[]"))
			}
			s, t := scen.Shared(sc.Shared)
			// a freshly compiled Program per execution: its lazily built parts start unbuilt in every schedule
			prg := goja.MustCompile("c16.js", sc.Src, false)
			results = make([]string, *threads)
			var bodies []func()
			for i := 0; i < *threads; i++ {
				i := i
				r := goja.New()
				bodies = append(bodies, func() { results[i] = scen.RunOne(r, prg, s, t) })
			}
			return bodies
		}
		check := func(res sched.Result) bool {
			sum.Points += res.Points
			for _, ev := range res.Trace {
				if strings.HasSuffix(ev.Op, "?") {
					kinds[ev.Op] = true
					if ev.Op == "load?" {
						sum.Instrumented = true
					}
				}
			}
			var sig, what string
			if res.Err != "" {
				sig, what = "sched|"+strings.SplitN(res.Err, ":", 2)[0], res.Err
			} else {
				for i, got := range results {
					if got != isolated {
						sig, what = "result-differs", fmt.Sprintf("runtime %d of %d sharing the program/values returned %q, in isolation the result is %q", i, *threads, got, isolated)
						break
					}
				}
			}
			if sig != "" {
				sum.Violations = append(sum.Violations, violation{Scenario: sc.Name, Sig: sig, What: what, Schedule: res.Choices})
				return false
			}
			if sum.Sample == nil && res.Preemptions == *bound && res.Points > 10 {
				var sw []string
				for i, c := range res.Choices {
					if c != 0 {
						sw = append(sw, fmt.Sprintf("point %d: switch to enabled[%d]", i, c))
					}
				}
				sum.Sample = map[string]interface{}{"scenario": sc.Name, "src": sc.Src, "scheduling_points": res.Points, "non_default_choices": sw, "results": results}
			}
			return true
		}
		if *replay != "" {
			var ch []int
			json.Unmarshal([]byte("["+*replay+"]"), &ch)
			sched.CurrentPrefix = ch
			res := sched.Run(ch, 20000, mk())
			sum.Execs++
			check(res)
			continue
		}
		b := *bound
		if sc.Long && b > *longBound {
			b = *longBound
		}
		n, ex := sched.Explore(b, 20000, mk, check, func() bool { return time.Now().After(deadline) })
		sum.Execs += n
		if !ex && time.Now().After(deadline) {
			sum.Exhausted = false
			break
		}
	}
	sum.Outcomes = len(outcomes)
	for k := range kinds {
		sum.PointKinds = append(sum.PointKinds, k)
	}
	json.NewEncoder(os.Stdout).Encode(sum)
}
