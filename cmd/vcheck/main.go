package main

import (
	"verif/core"

	_ "verif/checks/c01"
)

func main() { core.Main() }
