package main

import (
	"verif/core"

	_ "verif/checks/c01"
	_ "verif/checks/c02"
	_ "verif/checks/c03"
	_ "verif/checks/c04"
	_ "verif/checks/c05"
	_ "verif/checks/c06"
	_ "verif/checks/c07"
	_ "verif/checks/c08"
	_ "verif/checks/c09"
	_ "verif/checks/c10"
	_ "verif/checks/c11"
	_ "verif/checks/c12"
	_ "verif/checks/c13"
	_ "verif/checks/c14"
	_ "verif/checks/c15"
	_ "verif/checks/c16"
	_ "verif/checks/c17"
	_ "verif/checks/c18"
	_ "verif/checks/c19"
	_ "verif/checks/c20"
)

func main() { core.Main() }
