// Command c09 runs the check for property C09 (see bin/check).
package main

import (
	_ "verif/checks/c09"
	"verif/core"
)

func main() { core.Main() }
