// Command c01 runs the check for property C01 (see bin/check).
package main

import (
	_ "verif/checks/c01"
	"verif/core"
)

func main() { core.Main() }
