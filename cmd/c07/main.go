// Command c07 runs the check for property C07 (see bin/check).
package main

import (
	_ "verif/checks/c07"
	"verif/core"
)

func main() { core.Main() }
