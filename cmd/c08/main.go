// Command c08 runs the check for property C08 (see bin/check).
package main

import (
	_ "verif/checks/c08"
	"verif/core"
)

func main() { core.Main() }
