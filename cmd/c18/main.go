// Command c18 runs the check for property C18 (see bin/check).
package main

import (
	_ "verif/checks/c18"
	"verif/core"
)

func main() { core.Main() }
