// Command c03 runs the check for property C03 (see bin/check).
package main

import (
	_ "verif/checks/c03"
	"verif/core"
)

func main() { core.Main() }
