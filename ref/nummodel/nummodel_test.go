package nummodel

import (
	"math"
	"math/big"
	"testing"
)

var probes = []float64{0, math.Copysign(0, -1), 1, -1, 0.5, -0.5, 1.5, -1.5, 2147483647, 2147483648, -2147483648, -2147483649,
	4294967295, 4294967296, 4294967297, -4294967295, -4294967296, 9007199254740991, 9007199254740992, 9007199254740994,
	-9007199254740992, 9223372036854775808, 9223372036854777856, 18446744073709551616, 18446744073709555712, -18446744073709555712,
	1e21, 1e30, 1.7976931348623157e308, 5e-324, 2.2250738585072014e-308, math.Inf(1), math.Inf(-1), math.NaN(), 255.5, 254.5, 0.49999999999999994,
	-0.49999999999999994, 4503599627370495.5, -4503599627370495.5, 123456789.75, 1e-7, 1.2345e-7, 123456789012345680000, 1e21 + 1e6}

func TestModPow2AgainstBig(t *testing.T) {
	for _, f := range probes {
		for _, k := range []uint{8, 16, 32} {
			if !finite(f) {
				continue
			}
			if a, b := modPow2(f, k), ToUintBig(f, k); a != b {
				t.Errorf("modPow2(%v,%d)=%d big=%d", f, k, a, b)
			}
		}
	}
	if ToInt32(4294967295) != -1 || ToInt32(2147483648) != -2147483648 || ToUint32(-1) != 4294967295 || ToInt32(18446744073709555712) != 4096 {
		t.Error("ToInt32 fixed points")
	}
	if ToUint8Clamp(254.5) != 254 || ToUint8Clamp(255.5) != 255 || ToUint8Clamp(0.5) != 0 || ToUint8Clamp(1.5) != 2 || ToUint8Clamp(-1) != 0 {
		t.Error("ToUint8Clamp")
	}
}

func TestBigToFloatAgainstBigFloat(t *testing.T) {
	for _, s := range []string{"0", "1", "9007199254740993", "9007199254740995", "9007199254740994", "18446744073709551615", "36893488147419103231",
		"4722366482869645213695", "9223372036854775807", "9223372036854775809", "179769313486231580793728971405303415079934132710037826936173778980444968292764750946649017977587207096330286416692887910946555547851940402630657488671505820681908902000708383676273854845817711531764475730270069855571366959622842914819860834936475292719074168444365510704342711559699508093042880177904174497792"} {
		i, _ := new(big.Int).SetString(s, 10)
		want, _ := new(big.Float).SetInt(i).Float64()
		if got := BigToFloat(i); got != want {
			t.Errorf("BigToFloat(%s)=%v want %v", s, got, want)
		}
	}
}

func TestStringToNumber(t *testing.T) {
	nan := math.NaN()
	cases := map[string]float64{"": 0, " ": 0, "12": 12, " 12 ": 12, "\u00a012\ufeff": 12, "\u008512": nan, "\u180e12": nan, "0x10": 16, "0x-1": nan, "-0x10": nan,
		"0xFFFFFFFFFFFFFFFFFF": 4722366482869645213696, "0b11": 3, "0o17": 15, "0b2": nan, "0x": nan, "1e400": math.Inf(1), "-1e400": math.Inf(-1),
		"Infinity": math.Inf(1), "-Infinity": math.Inf(-1), "infinity": nan, "inf": nan, "nan": nan, "1_0": nan, ".5": 0.5, "5.": 5, ".": nan, "1e": nan, "e5": nan,
		"-0": math.Copysign(0, -1), "-.0e5": math.Copysign(0, -1), "+.5e1": 5, "9007199254740993": 9007199254740992, "0x20000000000001": 9007199254740992,
		"0x20000000000003": 9007199254740996, "1 2": nan, "0x1p3": nan, "1n": nan, "010": 10, "+-1": nan, "\u2028-12\u3000": -12, "5e-324": 5e-324, "2e-324": 0}
	for s, want := range cases {
		if got := StringToNumber(Str(s).S); !SameNum(got, want) {
			t.Errorf("StringToNumber(%q)=%v want %v", s, got, want)
		}
	}
}

func TestParse(t *testing.T) {
	if v, _ := ParseInt(Str("-0").S, 0); !SameNum(v, math.Copysign(0, -1)) {
		t.Error("parseInt -0")
	}
	if v, _ := ParseInt(Str("0x1f").S, 0); v != 31 {
		t.Error("parseInt 0x1f")
	}
	if v, _ := ParseInt(Str("0x1f").S, 10); v != 0 {
		t.Error("parseInt 0x1f,10")
	}
	if v, _ := ParseInt(Str("zz").S, 36); v != 1295 {
		t.Error("parseInt zz,36")
	}
	if v, _ := ParseInt(Str("12").S, 1); !math.IsNaN(v) {
		t.Error("parseInt radix 1")
	}
	for s, want := range map[string]float64{"1e": 1, "1.e3": 1000, ".e5": math.NaN(), "-.5x": -0.5, "Infinityx": math.Inf(1), "infinity": math.NaN(), "1_0": 1, "0x10": 0, "-0": math.Copysign(0, -1), "  \u00a03.5.6": 3.5} {
		if got := ParseFloat(Str(s).S); !SameNum(got, want) {
			t.Errorf("parseFloat(%q)=%v want %v", s, got, want)
		}
	}
}

func TestNumberToString(t *testing.T) {
	cases := map[float64]string{0: "0", 1: "1", -1.5: "-1.5", 1e21: "1e+21", 1e20: "100000000000000000000", 123456789012345680000: "123456789012345680000", 1e-6: "0.000001", 1e-7: "1e-7",
		1.2345e-7: "1.2345e-7", 5e-324: "5e-324", 1.7976931348623157e308: "1.7976931348623157e+308", 0.1: "0.1", 9007199254740992: "9007199254740992", 4294967296.5: "4294967296.5", 1.5e300: "1.5e+300"}
	for f, want := range cases {
		if got := NumberToString(f); got != want {
			t.Errorf("NumberToString(%v)=%q want %q", f, got, want)
		}
	}
}

func TestRoundAndPow(t *testing.T) {
	for x, want := range map[float64]float64{0.5: 1, 1.5: 2, -1.5: -1, 2.5: 3, 0.49999999999999994: 0, 4503599627370495.5: 4503599627370496, -4503599627370495.5: -4503599627370495} {
		if got := Round(x); !SameNum(got, want) {
			t.Errorf("Round(%v)=%v want %v", x, got, want)
		}
	}
	if !SameNum(Round(-0.5), math.Copysign(0, -1)) || !SameNum(Round(-0.2), math.Copysign(0, -1)) || !SameNum(Round(0.2), 0) {
		t.Error("Round zero signs")
	}
	if e := Exponentiate(1, math.Inf(1)); !math.IsNaN(e.V.N) || e.Approx {
		t.Error("1**Inf")
	}
	if e := Exponentiate(math.Copysign(0, -1), -3); !math.IsInf(e.V.N, -1) {
		t.Error("-0**-3")
	}
	if e := Exponentiate(-8, 1.0/3); !math.IsNaN(e.V.N) {
		t.Error("-8**(1/3)")
	}
}
