// Package nummodel is a small reference model of the ECMAScript Number semantics used by check C05:
// ToPrimitive/ToNumber/StringToNumber, the integer conversions (ToIntegerOrInfinity, ToInt32, ToUint32, ...,
// ToUint8Clamp, ToLength, ToIndex), Number::toString (radix 10), the Number operators and the Math functions.
// It imports nothing from goja. Go float64 arithmetic is IEEE-754 binary64 with round-to-nearest-even, which is
// exactly what ECMA-262 prescribes for Number::add/subtract/multiply/divide/remainder; everything that the
// specification calls "implementation-approximated" is flagged as such (Expect.Approx) and callers must not demand
// bit equality there.
package nummodel

import (
	"math"
	"math/big"
	"math/bits"
	"strconv"
	"unicode/utf16"
)

type Kind uint8

const (
	Undefined Kind = iota
	Null
	Bool
	Number
	String
	Object // an object whose ToPrimitive results are given (Prim for hint number/default, PrimStr for hint string)
	Throw  // abrupt completion, Err = error constructor name
)

// Val is a model value.
type Val struct {
	K       Kind
	N       float64  // Number; Bool (0/1)
	S       []uint16 // String
	Prim    *Val     // Object: ToPrimitive(hint number)
	PrimDef *Val     // Object: ToPrimitive(hint default); nil = same as Prim
	Err     string   // Throw
}

func Num(f float64) Val { return Val{K: Number, N: f} }
func Str(s string) Val  { return Val{K: String, S: utf16.Encode([]rune(s))} }
func StrU(u []uint16) Val {
	return Val{K: String, S: u}
}
func Boolean(b bool) Val {
	if b {
		return Val{K: Bool, N: 1}
	}
	return Val{K: Bool}
}
func Thrown(class string) Val { return Val{K: Throw, Err: class} }
func Obj(prim Val) Val        { return Val{K: Object, Prim: &prim} }
func ObjHint(num, def Val) Val {
	return Val{K: Object, Prim: &num, PrimDef: &def}
}

// GoString renders a string value (lone surrogates become U+FFFD; only for messages).
func (v Val) GoString() string { return string(utf16.Decode(v.S)) }

// Show renders a value for messages and outcome keys.
func (v Val) Show() string {
	switch v.K {
	case Undefined:
		return "undefined"
	case Null:
		return "null"
	case Bool:
		if v.N != 0 {
			return "true"
		}
		return "false"
	case Number:
		return ShowNum(v.N)
	case String:
		return strconv.QuoteToASCII(v.GoString())
	case Object:
		if v.Prim == nil {
			return "[object]"
		}
		if v.PrimDef != nil {
			return "{valueOf:" + v.Prim.Show() + ",default:" + v.PrimDef.Show() + "}"
		}
		return "{valueOf:" + v.Prim.Show() + "}"
	case Throw:
		return "throw " + v.Err
	}
	return "?"
}

func ShowNum(f float64) string {
	if f == 0 && math.Signbit(f) {
		return "-0"
	}
	return NumberToString(f)
}

// SameValue on numbers.
func SameNum(a, b float64) bool {
	if math.IsNaN(a) || math.IsNaN(b) {
		return math.IsNaN(a) && math.IsNaN(b)
	}
	return a == b && math.Signbit(a) == math.Signbit(b)
}

func SameUnits(a, b []uint16) bool {
	if len(a) != len(b) {
		return false
	}
	for i := range a {
		if a[i] != b[i] {
			return false
		}
	}
	return true
}

// Same is SameValue on model values (objects never occur as results).
func Same(a, b Val) bool {
	if a.K != b.K {
		return false
	}
	switch a.K {
	case Number:
		return SameNum(a.N, b.N)
	case Bool:
		return a.N == b.N
	case String:
		return SameUnits(a.S, b.S)
	case Throw:
		return a.Err == b.Err
	}
	return true
}

// ---------- 7.1 type conversion ----------

// ToPrimitive with hint number (def=false) or default (def=true).
func ToPrimitive(v Val, def bool) Val {
	if v.K != Object {
		return v
	}
	if def && v.PrimDef != nil {
		return *v.PrimDef
	}
	return *v.Prim
}

// ToNumber (no Symbol/BigInt in the model's universe, hence total).
func ToNumber(v Val) float64 {
	switch v.K {
	case Undefined:
		return math.NaN()
	case Null:
		return 0
	case Bool, Number:
		return v.N
	case String:
		return StringToNumber(v.S)
	case Object:
		return ToNumber(*v.Prim)
	}
	return math.NaN()
}

// IsStrWhiteSpaceChar: WhiteSpace or LineTerminator (ECMA-262 12.2, 12.3; Zs per Unicode 15).
func IsStrWhiteSpaceChar(c uint16) bool {
	switch c {
	case 0x09, 0x0B, 0x0C, 0x20, 0xA0, 0xFEFF, 0x0A, 0x0D, 0x2028, 0x2029,
		0x1680, 0x202F, 0x205F, 0x3000:
		return true
	}
	return c >= 0x2000 && c <= 0x200A
}

func TrimUnits(s []uint16) []uint16 {
	for len(s) > 0 && IsStrWhiteSpaceChar(s[0]) {
		s = s[1:]
	}
	for len(s) > 0 && IsStrWhiteSpaceChar(s[len(s)-1]) {
		s = s[:len(s)-1]
	}
	return s
}

func digitVal(c uint16) int {
	switch {
	case c >= '0' && c <= '9':
		return int(c - '0')
	case c >= 'a' && c <= 'z':
		return int(c-'a') + 10
	case c >= 'A' && c <= 'Z':
		return int(c-'A') + 10
	}
	return 99
}

// BigToFloat rounds a non-negative integer to the nearest double, ties to even (spec: "the Number value for" MV).
func BigToFloat(i *big.Int) float64 {
	neg := i.Sign() < 0
	a := new(big.Int).Abs(i)
	n := a.BitLen()
	var f float64
	if n <= 53 {
		f = float64(a.Uint64())
	} else {
		shift := uint(n - 53)
		q := new(big.Int).Rsh(a, shift)
		rem := new(big.Int).Sub(a, new(big.Int).Lsh(q, shift))
		half := new(big.Int).Lsh(big.NewInt(1), shift-1)
		m := q.Uint64()
		switch rem.Cmp(half) {
		case 1:
			m++
		case 0:
			if m&1 == 1 {
				m++
			}
		}
		f = math.Ldexp(float64(m), int(shift)) // m <= 2^53 is exact; Ldexp overflows to +Inf correctly
	}
	if neg {
		f = -f
	}
	return f
}

// scanDecimal recognises the longest prefix of s that is a StrUnsignedDecimalLiteral without "Infinity"
// (DecimalDigits . DecimalDigits? ExponentPart? | . DecimalDigits ExponentPart? | DecimalDigits ExponentPart?)
// and returns its length (0 = none).
func scanDecimal(s []uint16) int {
	i := 0
	intDigits := 0
	for i < len(s) && s[i] >= '0' && s[i] <= '9' {
		i++
		intDigits++
	}
	fracDigits := 0
	if i < len(s) && s[i] == '.' {
		j := i + 1
		for j < len(s) && s[j] >= '0' && s[j] <= '9' {
			j++
			fracDigits++
		}
		if intDigits > 0 || fracDigits > 0 {
			i = j
		}
	}
	if intDigits == 0 && fracDigits == 0 {
		return 0
	}
	if i < len(s) && (s[i] == 'e' || s[i] == 'E') {
		j := i + 1
		if j < len(s) && (s[j] == '+' || s[j] == '-') {
			j++
		}
		k := j
		for k < len(s) && s[k] >= '0' && s[k] <= '9' {
			k++
		}
		if k > j {
			i = k
		}
	}
	return i
}

func unitsASCII(s []uint16) string {
	b := make([]byte, len(s))
	for i, c := range s {
		b[i] = byte(c)
	}
	return string(b)
}

// decimalValue: the Number value of a decimal literal text (already recognised by scanDecimal).
// strconv.ParseFloat is correctly rounded for inputs of any length, which is always a permitted result
// (the specification only *allows* sloppier rounding after the 20th significant digit).
func decimalValue(text string) float64 {
	f, _ := strconv.ParseFloat(text, 64) // a range error still returns +-Inf / 0, which is the Number value
	return f
}

var infinityUnits = utf16.Encode([]rune("Infinity"))

func hasPrefix(s, p []uint16) bool {
	return len(s) >= len(p) && SameUnits(s[:len(p)], p)
}

// StringToNumber implements ECMA-262 7.1.4.1.1 on UTF-16 code units.
func StringToNumber(in []uint16) float64 {
	s := TrimUnits(in)
	if len(s) == 0 {
		return 0
	}
	// NonDecimalIntegerLiteral (no sign)
	if len(s) > 2 && s[0] == '0' {
		base := 0
		switch s[1] {
		case 'x', 'X':
			base = 16
		case 'o', 'O':
			base = 8
		case 'b', 'B':
			base = 2
		}
		if base != 0 {
			v := new(big.Int)
			bb := big.NewInt(int64(base))
			for _, c := range s[2:] {
				d := digitVal(c)
				if d >= base {
					return math.NaN()
				}
				v.Mul(v, bb)
				v.Add(v, big.NewInt(int64(d)))
			}
			return BigToFloat(v)
		}
	}
	neg := false
	t := s
	if t[0] == '+' || t[0] == '-' {
		neg = t[0] == '-'
		t = t[1:]
	}
	if SameUnits(t, infinityUnits) {
		if neg {
			return math.Inf(-1)
		}
		return math.Inf(1)
	}
	if n := scanDecimal(t); n == 0 || n != len(t) {
		return math.NaN()
	}
	f := decimalValue(unitsASCII(t))
	if neg {
		f = -f
	}
	return f
}

// ParseFloat implements the global parseFloat on an already ToString-ed argument.
func ParseFloat(in []uint16) float64 {
	s := in
	for len(s) > 0 && IsStrWhiteSpaceChar(s[0]) { // TrimString(start)
		s = s[1:]
	}
	neg := false
	t := s
	if len(t) > 0 && (t[0] == '+' || t[0] == '-') {
		neg = t[0] == '-'
		t = t[1:]
	}
	var f float64
	if hasPrefix(t, infinityUnits) {
		f = math.Inf(1)
	} else {
		n := scanDecimal(t)
		if n == 0 {
			return math.NaN()
		}
		f = decimalValue(unitsASCII(t[:n]))
	}
	if neg {
		f = -f
	}
	return f
}

// ParseInt implements the global parseInt(string, radix) on a ToString-ed first argument and ToInt32-ed radix.
// exact reports whether the specification requires the mathematically exact (correctly rounded) value:
// always for radix 2,4,8,16,32; for radix 10 up to 20 significant digits; otherwise the value may be approximated.
func ParseInt(in []uint16, radix int32) (val float64, exact bool) {
	s := in
	for len(s) > 0 && IsStrWhiteSpaceChar(s[0]) {
		s = s[1:]
	}
	sign := 1.0
	if len(s) > 0 && (s[0] == '+' || s[0] == '-') {
		if s[0] == '-' {
			sign = -1
		}
		s = s[1:]
	}
	r := int(radix)
	strip := true
	if r != 0 {
		if r < 2 || r > 36 {
			return math.NaN(), true
		}
		if r != 16 {
			strip = false
		}
	} else {
		r = 10
	}
	if strip && len(s) >= 2 && s[0] == '0' && (s[1] == 'x' || s[1] == 'X') {
		s = s[2:]
		r = 16
	}
	n := 0
	for n < len(s) && digitVal(s[n]) < r {
		n++
	}
	if n == 0 {
		return math.NaN(), true
	}
	v := new(big.Int)
	bb := big.NewInt(int64(r))
	sig := 0
	for _, c := range s[:n] {
		d := digitVal(c)
		if d != 0 || sig > 0 {
			sig++
		}
		v.Mul(v, bb)
		v.Add(v, big.NewInt(int64(d)))
	}
	exact = true
	switch r {
	case 2, 4, 8, 16, 32:
	case 10:
		exact = sig <= 20
	default:
		exact = v.BitLen() <= 53 // "implementation-approximated integer" only matters when it is not representable
	}
	f := BigToFloat(v)
	if f == 0 {
		if sign < 0 {
			return math.Copysign(0, -1), exact
		}
		return 0, exact
	}
	return sign * f, exact
}

func ToIntegerOrInfinity(f float64) float64 {
	if math.IsNaN(f) || f == 0 {
		return 0
	}
	if math.IsInf(f, 0) {
		return f
	}
	t := math.Trunc(f)
	if t == 0 {
		return 0 // never -0
	}
	return t
}

// modulo 2^k of a finite, truncated double; result in [0, 2^k).
func modPow2(f float64, k uint) uint64 {
	t := math.Trunc(f)
	m := math.Ldexp(1, int(k))
	r := math.Mod(t, m) // exact in IEEE arithmetic
	if r < 0 {
		r += m
	}
	return uint64(r)
}

func finite(f float64) bool { return !math.IsNaN(f) && !math.IsInf(f, 0) }

func ToUint32(f float64) uint32 {
	if !finite(f) {
		return 0
	}
	return uint32(modPow2(f, 32))
}
func ToInt32(f float64) int32 { return int32(ToUint32(f)) }
func ToUint16(f float64) uint16 {
	if !finite(f) {
		return 0
	}
	return uint16(modPow2(f, 16))
}
func ToInt16(f float64) int16 { return int16(ToUint16(f)) }
func ToUint8(f float64) uint8 {
	if !finite(f) {
		return 0
	}
	return uint8(modPow2(f, 8))
}
func ToInt8(f float64) int8 { return int8(ToUint8(f)) }

func ToUint8Clamp(f float64) uint8 {
	if math.IsNaN(f) || f <= 0 {
		return 0
	}
	if f >= 255 {
		return 255
	}
	fl := math.Floor(f)
	d := f - fl // exact for |f| < 256
	switch {
	case d < 0.5:
		return uint8(fl)
	case d > 0.5:
		return uint8(fl) + 1
	}
	if uint8(fl)&1 == 0 {
		return uint8(fl)
	}
	return uint8(fl) + 1
}

// ToUintBig / ToIntBig are an independent (math/big) formulation of "int modulo 2^k", used to cross-check modPow2.
func ToUintBig(f float64, k uint) uint64 {
	if !finite(f) {
		return 0
	}
	bf := new(big.Float).SetFloat64(math.Trunc(f))
	bi, _ := bf.Int(nil)
	m := new(big.Int).Lsh(big.NewInt(1), k)
	bi.Mod(bi, m) // Euclidean modulus: non-negative
	return bi.Uint64()
}

const MaxSafe = 9007199254740991 // 2^53-1

func ToLength(f float64) float64 {
	l := ToIntegerOrInfinity(f)
	if l <= 0 {
		return 0
	}
	return math.Min(l, MaxSafe)
}

// ToIndex returns (index, ok); !ok = RangeError.
func ToIndex(f float64) (float64, bool) {
	i := ToIntegerOrInfinity(f)
	if i < 0 || i > MaxSafe {
		return 0, false
	}
	return i, true
}

// NumberToString is Number::toString(x, 10).
func NumberToString(f float64) string {
	switch {
	case math.IsNaN(f):
		return "NaN"
	case f == 0:
		return "0"
	case math.IsInf(f, 1):
		return "Infinity"
	case math.IsInf(f, -1):
		return "-Infinity"
	}
	if f < 0 {
		return "-" + NumberToString(-f)
	}
	// shortest round-trip digits
	e := strconv.FormatFloat(f, 'e', -1, 64) // d.ddddde±xx
	mant := e
	exp := 0
	for i := 0; i < len(e); i++ {
		if e[i] == 'e' {
			mant = e[:i]
			exp, _ = strconv.Atoi(e[i+1:])
			break
		}
	}
	digits := make([]byte, 0, 20)
	for i := 0; i < len(mant); i++ {
		if mant[i] != '.' {
			digits = append(digits, mant[i])
		}
	}
	k := len(digits)
	n := exp + 1
	switch {
	case k <= n && n <= 21:
		for i := k; i < n; i++ {
			digits = append(digits, '0')
		}
		return string(digits)
	case 0 < n && n <= 21:
		return string(digits[:n]) + "." + string(digits[n:])
	case -6 < n && n <= 0:
		z := make([]byte, 0, 30)
		z = append(z, '0', '.')
		for i := 0; i < -n; i++ {
			z = append(z, '0')
		}
		return string(z) + string(digits)
	}
	sign := "+"
	x := n - 1
	if x < 0 {
		sign = "-"
		x = -x
	}
	if k == 1 {
		return string(digits) + "e" + sign + strconv.Itoa(x)
	}
	return string(digits[:1]) + "." + string(digits[1:]) + "e" + sign + strconv.Itoa(x)
}

// ToStringVal is ToString on a model value (objects: via ToPrimitive hint string is not modelled; callers only use
// hint default/number paths).
func ToStringUnits(v Val) []uint16 {
	switch v.K {
	case Undefined:
		return Str("undefined").S
	case Null:
		return Str("null").S
	case Bool:
		if v.N != 0 {
			return Str("true").S
		}
		return Str("false").S
	case Number:
		return Str(NumberToString(v.N)).S
	case String:
		return v.S
	}
	return nil
}

// ---------- operators ----------

// Expect is a model result; Approx means the specification leaves the exact value to the implementation.
type Expect struct {
	V      Val
	Approx bool
}

func exact(f float64) Expect  { return Expect{V: Num(f)} }
func approx(f float64) Expect { return Expect{V: Num(f), Approx: true} }

// Add is the + operator.
func Add(a, b Val) Expect {
	pa, pb := ToPrimitive(a, true), ToPrimitive(b, true)
	if pa.K == String || pb.K == String {
		sa, sb := ToStringUnits(pa), ToStringUnits(pb)
		r := make([]uint16, 0, len(sa)+len(sb))
		r = append(append(r, sa...), sb...)
		return Expect{V: StrU(r)}
	}
	return exact(ToNumber(pa) + ToNumber(pb))
}

func isOddInteger(f float64) bool {
	if !finite(f) || f != math.Trunc(f) {
		return false
	}
	return math.Mod(f, 2) != 0
}

// Exponentiate is Number::exponentiate (6.1.6.1.3).
func Exponentiate(base, exponent float64) Expect {
	switch {
	case math.IsNaN(exponent):
		return exact(math.NaN())
	case exponent == 0:
		return exact(1)
	case math.IsNaN(base):
		return exact(math.NaN())
	case math.IsInf(base, 1):
		if exponent > 0 {
			return exact(math.Inf(1))
		}
		return exact(0)
	case math.IsInf(base, -1):
		if exponent > 0 {
			if isOddInteger(exponent) {
				return exact(math.Inf(-1))
			}
			return exact(math.Inf(1))
		}
		if isOddInteger(exponent) {
			return exact(math.Copysign(0, -1))
		}
		return exact(0)
	case base == 0 && !math.Signbit(base):
		if exponent > 0 {
			return exact(0)
		}
		return exact(math.Inf(1))
	case base == 0:
		if exponent > 0 {
			if isOddInteger(exponent) {
				return exact(math.Copysign(0, -1))
			}
			return exact(0)
		}
		if isOddInteger(exponent) {
			return exact(math.Inf(-1))
		}
		return exact(math.Inf(1))
	case math.IsInf(exponent, 1):
		switch ab := math.Abs(base); {
		case ab > 1:
			return exact(math.Inf(1))
		case ab == 1:
			return exact(math.NaN())
		default:
			return exact(0)
		}
	case math.IsInf(exponent, -1):
		switch ab := math.Abs(base); {
		case ab > 1:
			return exact(0)
		case ab == 1:
			return exact(math.NaN())
		default:
			return exact(math.Inf(1))
		}
	case base < 0 && exponent != math.Trunc(exponent):
		return exact(math.NaN())
	}
	return approx(math.Pow(base, exponent))
}

// Binary applies a binary operator of the language to two values.
func Binary(op string, a, b Val) Expect {
	if op == "+" {
		return Add(a, b)
	}
	x, y := ToNumber(a), ToNumber(b)
	switch op {
	case "-":
		return exact(x - y)
	case "*":
		return exact(x * y)
	case "/":
		return exact(x / y)
	case "%":
		return exact(math.Mod(x, y)) // IEEE fmod == Number::remainder (truncating, sign of dividend, exact)
	case "**":
		return Exponentiate(x, y)
	case "&":
		return exact(float64(ToInt32(x) & ToInt32(y)))
	case "|":
		return exact(float64(ToInt32(x) | ToInt32(y)))
	case "^":
		return exact(float64(ToInt32(x) ^ ToInt32(y)))
	case "<<":
		return exact(float64(ToInt32(x) << (ToUint32(y) & 31)))
	case ">>":
		return exact(float64(ToInt32(x) >> (ToUint32(y) & 31)))
	case ">>>":
		return exact(float64(ToUint32(x) >> (ToUint32(y) & 31)))
	}
	panic("nummodel: unknown binary operator " + op)
}

// Unary applies a unary operator ("-", "+", "~", "++", "--"; the last two give the NEW value).
func Unary(op string, a Val) Expect {
	x := ToNumber(a)
	switch op {
	case "-":
		return exact(-x) // Go negation flips the sign bit of zero and keeps NaN a NaN
	case "+":
		return exact(x)
	case "~":
		return exact(float64(^ToInt32(x)))
	case "++":
		return exact(x + 1)
	case "--":
		return exact(x - 1)
	}
	panic("nummodel: unknown unary operator " + op)
}

// ---------- Math ----------

func negZero() float64 { return math.Copysign(0, -1) }

// Round is Math.round.
func Round(x float64) float64 {
	if !finite(x) || x == math.Trunc(x) {
		return x
	}
	if x < 0 && x >= -0.5 {
		return negZero()
	}
	if x > 0 && x < 0.5 {
		return 0
	}
	fl := math.Floor(x)
	if x-fl >= 0.5 { // exact: |x| < 2^52 here
		return fl + 1
	}
	return fl
}

func Sign(x float64) float64 {
	switch {
	case math.IsNaN(x) || x == 0:
		return x
	case x > 0:
		return 1
	}
	return -1
}

func maxNum(a, b float64) float64 {
	if math.IsNaN(a) || math.IsNaN(b) {
		return math.NaN()
	}
	if a == 0 && b == 0 {
		if math.Signbit(a) && math.Signbit(b) {
			return negZero()
		}
		return 0
	}
	if a > b {
		return a
	}
	return b
}

func minNum(a, b float64) float64 {
	if math.IsNaN(a) || math.IsNaN(b) {
		return math.NaN()
	}
	if a == 0 && b == 0 {
		if math.Signbit(a) || math.Signbit(b) {
			return negZero()
		}
		return 0
	}
	if a < b {
		return a
	}
	return b
}

// Math1 models Math.<name>(x) for the one-argument functions; x is already ToNumber-ed.
// For the transcendental functions only the special cases listed in ECMA-262 21.3.2 are exact.
func Math1(name string, x float64) Expect {
	nan, inf := math.NaN(), math.Inf(1)
	isNaN := math.IsNaN(x)
	zero := x == 0
	pinf, ninf := math.IsInf(x, 1), math.IsInf(x, -1)
	switch name {
	case "abs":
		return exact(math.Abs(x))
	case "ceil":
		return exact(math.Ceil(x))
	case "floor":
		return exact(math.Floor(x))
	case "trunc":
		return exact(math.Trunc(x))
	case "round":
		return exact(Round(x))
	case "sign":
		return exact(Sign(x))
	case "fround":
		return exact(float64(float32(x)))
	case "clz32":
		return exact(float64(bits.LeadingZeros32(ToUint32(x))))
	case "max": // one argument
		return exact(maxNum(math.Inf(-1), x))
	case "min":
		return exact(minNum(inf, x))
	case "hypot": // one argument
		switch {
		case pinf || ninf:
			return exact(inf)
		case isNaN:
			return exact(nan)
		case zero:
			return exact(0)
		}
		return approx(math.Abs(x))
	case "acos":
		switch {
		case isNaN || x > 1 || x < -1:
			return exact(nan)
		case x == 1:
			return exact(0)
		}
		return approx(math.Acos(x))
	case "acosh":
		switch {
		case isNaN || pinf:
			return exact(x)
		case x == 1:
			return exact(0)
		case x < 1:
			return exact(nan)
		}
		return approx(math.Acosh(x))
	case "asin":
		switch {
		case isNaN || zero:
			return exact(x)
		case x > 1 || x < -1:
			return exact(nan)
		}
		return approx(math.Asin(x))
	case "asinh":
		if isNaN || zero || pinf || ninf {
			return exact(x)
		}
		return approx(math.Asinh(x))
	case "atan":
		if isNaN || zero {
			return exact(x)
		}
		return approx(math.Atan(x))
	case "atanh":
		switch {
		case isNaN || zero:
			return exact(x)
		case x > 1 || x < -1:
			return exact(nan)
		case x == 1:
			return exact(inf)
		case x == -1:
			return exact(-inf)
		}
		return approx(math.Atanh(x))
	case "cbrt":
		if isNaN || zero || pinf || ninf {
			return exact(x)
		}
		return approx(math.Cbrt(x))
	case "cos":
		switch {
		case isNaN || pinf || ninf:
			return exact(nan)
		case zero:
			return exact(1)
		}
		return approx(math.Cos(x))
	case "cosh":
		switch {
		case isNaN:
			return exact(nan)
		case pinf || ninf:
			return exact(inf)
		case zero:
			return exact(1)
		}
		return approx(math.Cosh(x))
	case "exp":
		switch {
		case isNaN || pinf:
			return exact(x)
		case zero:
			return exact(1)
		case ninf:
			return exact(0)
		}
		return approx(math.Exp(x))
	case "expm1":
		switch {
		case isNaN || zero || pinf:
			return exact(x)
		case ninf:
			return exact(-1)
		}
		return approx(math.Expm1(x))
	case "log", "log10", "log2":
		switch {
		case isNaN || pinf:
			return exact(x)
		case x == 1:
			return exact(0)
		case zero:
			return exact(-inf)
		case x < 0:
			return exact(nan)
		}
		switch name {
		case "log":
			return approx(math.Log(x))
		case "log10":
			return approx(math.Log10(x))
		}
		return approx(math.Log2(x))
	case "log1p":
		switch {
		case isNaN || zero || pinf:
			return exact(x)
		case x == -1:
			return exact(-inf)
		case x < -1:
			return exact(nan)
		}
		return approx(math.Log1p(x))
	case "sin", "tan":
		switch {
		case isNaN || zero:
			return exact(x)
		case pinf || ninf:
			return exact(nan)
		}
		if name == "sin" {
			return approx(math.Sin(x))
		}
		return approx(math.Tan(x))
	case "sinh":
		if isNaN || zero || pinf || ninf {
			return exact(x)
		}
		return approx(math.Sinh(x))
	case "sqrt":
		switch {
		case isNaN || zero || pinf:
			return exact(x)
		case x < 0:
			return exact(nan)
		}
		return approx(math.Sqrt(x))
	case "tanh":
		switch {
		case isNaN || zero:
			return exact(x)
		case pinf:
			return exact(1)
		case ninf:
			return exact(-1)
		}
		return approx(math.Tanh(x))
	}
	panic("nummodel: unknown Math function " + name)
}

// Math2 models the two-argument Math functions on ToNumber-ed arguments.
func Math2(name string, x, y float64) Expect {
	switch name {
	case "pow":
		return Exponentiate(x, y)
	case "imul":
		return exact(float64(int32(ToUint32(x) * ToUint32(y))))
	case "max":
		return exact(maxNum(maxNum(math.Inf(-1), x), y))
	case "min":
		return exact(minNum(minNum(math.Inf(1), x), y))
	case "hypot":
		switch {
		case math.IsInf(x, 0) || math.IsInf(y, 0):
			return exact(math.Inf(1))
		case math.IsNaN(x) || math.IsNaN(y):
			return exact(math.NaN())
		case x == 0 && y == 0:
			return exact(0)
		}
		return approx(math.Hypot(x, y))
	case "atan2":
		// ECMA-262 21.3.2.8: NaN, and the signed-zero results are exact; every other result is an approximation
		// of a multiple of pi/4 or of atan(y/x). Go's Atan2 follows the same (C99 Annex F) case table.
		r := math.Atan2(x, y)
		if math.IsNaN(x) || math.IsNaN(y) {
			return exact(math.NaN())
		}
		if r == 0 {
			// +-0 results: (y=+-0, x>0 or x=+0), (y finite>0/<0, x=+Inf)
			if x == 0 || math.IsInf(y, 1) {
				return exact(r)
			}
			return approx(r) // underflow of y/x
		}
		return approx(r)
	}
	panic("nummodel: unknown Math function " + name)
}

// ApproxEqual is the (deliberately loose) sanity relation used where the specification only asks for an
// approximation: same NaN-ness, same sign, and either both overflow/underflow-ish or relative distance < 2^-40.
func ApproxEqual(a, b float64) bool {
	if SameNum(a, b) {
		return true
	}
	if math.IsNaN(a) || math.IsNaN(b) {
		return false
	}
	if (a == 0 || math.Abs(a) < 1e-300) && (b == 0 || math.Abs(b) < 1e-300) {
		return true
	}
	if math.Signbit(a) != math.Signbit(b) {
		return false
	}
	if math.IsInf(a, 0) || math.IsInf(b, 0) {
		return math.Abs(a) > 1e300 && math.Abs(b) > 1e300
	}
	return math.Abs(a-b) <= math.Ldexp(math.Max(math.Abs(a), math.Abs(b)), -40)
}

// TimeClip (21.4.1.31).
func TimeClip(t float64) float64 {
	if !finite(t) || math.Abs(t) > 8.64e15 {
		return math.NaN()
	}
	return ToIntegerOrInfinity(t)
}

// IsJSONNumber recognises the JSON number grammar: -? (0 | [1-9][0-9]*) (. [0-9]+)? ([eE] [+-]? [0-9]+)?
func IsJSONNumber(s []uint16) bool {
	i := 0
	if i < len(s) && s[i] == '-' {
		i++
	}
	if i >= len(s) {
		return false
	}
	if s[i] == '0' {
		i++
	} else if s[i] >= '1' && s[i] <= '9' {
		for i < len(s) && s[i] >= '0' && s[i] <= '9' {
			i++
		}
	} else {
		return false
	}
	if i < len(s) && s[i] == '.' {
		i++
		j := i
		for i < len(s) && s[i] >= '0' && s[i] <= '9' {
			i++
		}
		if i == j {
			return false
		}
	}
	if i < len(s) && (s[i] == 'e' || s[i] == 'E') {
		i++
		if i < len(s) && (s[i] == '+' || s[i] == '-') {
			i++
		}
		j := i
		for i < len(s) && s[i] >= '0' && s[i] <= '9' {
			i++
		}
		if i == j {
			return false
		}
	}
	return i == len(s)
}

// IsJSONWhiteSpace: the four JSON white space characters.
func IsJSONWhiteSpace(c uint16) bool { return c == 0x20 || c == 0x09 || c == 0x0A || c == 0x0D }

// StringToBigInt implements 7.1.14 StringToBigInt; ok=false means "undefined" (SyntaxError in the BigInt constructor).
func StringToBigInt(in []uint16) (*big.Int, bool) {
	s := TrimUnits(in)
	if len(s) == 0 {
		return new(big.Int), true
	}
	base := 10
	neg := false
	if len(s) > 2 && s[0] == '0' {
		switch s[1] {
		case 'x', 'X':
			base = 16
		case 'o', 'O':
			base = 8
		case 'b', 'B':
			base = 2
		}
		if base != 10 {
			s = s[2:]
		}
	}
	if base == 10 && (s[0] == '+' || s[0] == '-') {
		neg = s[0] == '-'
		s = s[1:]
	}
	if len(s) == 0 {
		return nil, false
	}
	v := new(big.Int)
	bb := big.NewInt(int64(base))
	for _, c := range s {
		d := digitVal(c)
		if d >= base {
			return nil, false
		}
		v.Mul(v, bb)
		v.Add(v, big.NewInt(int64(d)))
	}
	if neg {
		v.Neg(v)
	}
	return v, true
}

// NumberToBigInt (21.2.1.1.1): ok=false means RangeError (not an integral Number).
func NumberToBigInt(f float64) (*big.Int, bool) {
	if !finite(f) || f != math.Trunc(f) {
		return nil, false
	}
	bi, _ := new(big.Float).SetFloat64(f).Int(nil)
	return bi, true
}
