package nummodel12

import (
	"math"
	"math/big"
	"strconv"
	"strings"
	"testing"
)

// The model is validated against independent implementations where their semantics coincide with
// ECMAScript's: strconv (shortest digits, correctly rounded %e/%f away from exact ties, ParseFloat) and
// big.Rat.Float64. Domains are structured, not random: all binary16 values and exponent x pattern sweeps.

func half(h uint16) float64 {
	sign := uint64(h>>15) << 63
	e := int(h>>10) & 0x1f
	f := uint64(h & 0x3ff)
	switch {
	case e == 0:
		v := float64(f) * math.Ldexp(1, -24)
		if sign != 0 {
			v = -v
		}
		return v
	case e == 31:
		if f == 0 {
			return math.Float64frombits(sign | 0x7ff<<52)
		}
		return math.NaN()
	}
	return math.Float64frombits(sign | uint64(e-15+1023)<<52 | f<<42)
}

func domain() []float64 {
	var xs []float64
	for h := 0; h < 1<<16; h++ {
		x := half(uint16(h))
		if !math.IsNaN(x) && !math.IsInf(x, 0) && x != 0 {
			xs = append(xs, x)
		}
	}
	for ex := uint64(0); ex < 2047; ex += 13 {
		for _, fr := range []uint64{0, 1, 2, 1<<52 - 1, 1<<52 - 2, 1 << 51, 1<<51 - 1, 1<<51 + 1, 0x5555555555555, 0xaaaaaaaaaaaaa, 0x123456789abcd, 0xfedcba9876543} {
			if ex == 0 && fr == 0 {
				continue
			}
			xs = append(xs, math.Float64frombits(ex<<52|fr))
		}
	}
	return xs
}

func splitE(s string) (string, int) { // d.ddde±xx -> digits, n
	i := strings.IndexByte(s, 'e')
	e, _ := strconv.Atoi(s[i+1:])
	d := strings.Replace(s[:i], ".", "", 1)
	return d, e + 1
}

func TestShortestAgainstStrconv(t *testing.T) {
	for _, x := range domain() {
		ax := math.Abs(x)
		want, wn := splitE(strconv.FormatFloat(ax, 'e', -1, 64))
		got, gn := Shortest(ax)
		if got != want || gn != wn {
			t.Fatalf("Shortest(%x)=%s,%d strconv=%s,%d", math.Float64bits(x), got, gn, want, wn)
		}
		if v := VerifyShortest(ax, got, gn); v != OK {
			t.Fatalf("VerifyShortest(%x,%s,%d)=%d", math.Float64bits(x), got, gn, v)
		}
		// the neighbours of the right digits are either not round-trip or not closest
		if s, _ := strconv.ParseUint(got, 10, 64); s > 1 {
			for _, o := range []uint64{s - 1, s + 1} {
				od := strconv.FormatUint(o, 10)
				if len(od) != len(got) || od[len(od)-1] == '0' {
					continue
				}
				ed := ExactDecimal(ax)
				if len(ed.Digits) == len(got)+1 && ed.Digits[len(got):] == "5" {
					continue // exact tie between two shortest candidates: both are acceptable to Verify
				}
				if v := VerifyShortest(ax, od, gn); v == OK {
					t.Fatalf("VerifyShortest accepts %s for %x (right: %s)", od, math.Float64bits(x), got)
				}
			}
		}
		// mutations of the right answer must be rejected
		if len(got) > 1 {
			if v := VerifyShortest(ax, got[:len(got)-1]+"0", gn); v != BadDigitsForm {
				t.Fatalf("trailing zero accepted")
			}
		}
		if len(got) <= 16 {
			longer := got + "1"
			if v := VerifyShortest(ax, longer, gn); v != NotShortest && v != NotRoundTrip {
				t.Fatalf("longer digits %s accepted for %x: %d", longer, math.Float64bits(x), v)
			}
		}
		if ToNumberDecimal(ToString(x)) != x {
			t.Fatalf("model round trip %x %s", math.Float64bits(x), ToString(x))
		}
	}
}

func isTie(d Dec, keep int) bool { // the dropped part is exactly 5000…
	return keep >= 0 && keep < len(d.Digits) && d.Digits[keep:] == "5"
}

func TestRoundingAgainstStrconv(t *testing.T) {
	for _, x := range domain() {
		ed := ExactDecimal(x)
		// the exact expansion must parse back exactly
		if got, _ := strconv.ParseFloat(ed.Scientific(), 64); got != math.Abs(x) {
			t.Fatalf("ExactDecimal(%x) = %s", math.Float64bits(x), ed.Scientific())
		}
		for p := 1; p <= 100; p += 1 {
			if isTie(ed, p) {
				continue
			}
			want := strconv.FormatFloat(x, 'e', p-1, 64)
			got := ToExponential(x, p-1)
			// strconv pads the exponent to two digits
			wd, wn := splitE(want)
			gd, gn := splitE(got)
			if wd != gd || wn != gn {
				t.Fatalf("ToExponential(%x,%d)=%s strconv=%s", math.Float64bits(x), p-1, got, want)
			}
		}
		if math.Abs(x) < 1e21 {
			for f := 0; f <= 100; f++ {
				if isTie(ed, ed.N+f) {
					continue
				}
				want := strconv.FormatFloat(x, 'f', f, 64)
				got := ToFixed(x, f)
				if want != got {
					t.Fatalf("ToFixed(%x,%d)=%s strconv=%s", math.Float64bits(x), f, got, want)
				}
			}
		}
	}
}

func TestSpecExamples(t *testing.T) {
	for _, c := range []struct{ got, want string }{
		{ToFixed(0.5, 0), "1"}, {ToFixed(1.5, 0), "2"}, {ToFixed(2.5, 0), "3"}, {ToFixed(-2.5, 0), "-3"},
		{ToFixed(1.005, 2), "1.00"}, {ToFixed(0.000001, 7), "0.0000010"}, {ToFixed(-0.0001, 2), "-0.00"},
		{ToFixed(math.Copysign(0, -1), 2), "0.00"}, {ToFixed(1e21, 2), "1e+21"}, {ToFixed(123.456, 0), "123"},
		{ToFixed(0.05, 1), "0.1"}, {ToFixed(0.04, 1), "0.0"}, {ToFixed(99.5, 0), "100"}, {ToFixed(1000000000000000128, 0), "1000000000000000128"},
		{ToExponential(0, 2), "0.00e+0"}, {ToExponential(123456, 2), "1.23e+5"}, {ToExponential(9.96, 1), "1.0e+1"},
		{ToExponential(25, 0), "3e+1"}, {ToExponential(35, 0), "4e+1"}, {ToExponential(123456, -1), "1.23456e+5"}, {ToExponential(0, -1), "0e+0"},
		{ToExponential(-1.5, 0), "-2e+0"},
		{ToPrecision(0, 3), "0.00"}, {ToPrecision(123.456, 2), "1.2e+2"}, {ToPrecision(123.456, 3), "123"}, {ToPrecision(123.456, 4), "123.5"},
		{ToPrecision(0.000001, 2), "0.0000010"}, {ToPrecision(0.0000001, 2), "1.0e-7"}, {ToPrecision(99.96, 3), "100"}, {ToPrecision(-99.96, 2), "-1.0e+2"},
		{ToPrecision(1e21, 1), "1e+21"}, {ToPrecision(15, 1), "2e+1"}, {ToPrecision(2.5, 1), "3"},
		{ToString(1e21), "1e+21"}, {ToString(123456789012345680000), "123456789012345680000"}, {ToString(0.000001), "0.000001"}, {ToString(1e-7), "1e-7"},
		{ToString(-1.5e-10), "-1.5e-10"}, {ToString(5e-324), "5e-324"}, {ToString(math.MaxFloat64), "1.7976931348623157e+308"}, {ToString(math.Copysign(0, -1)), "0"},
		{ToString(0.1), "0.1"}, {ToString(100), "100"}, {ToString(1.5), "1.5"},
	} {
		if c.got != c.want {
			t.Errorf("got %q want %q", c.got, c.want)
		}
	}
}

func TestParseAgainstStrconvAndRat(t *testing.T) {
	check := func(s string) {
		want, err := strconv.ParseFloat(s, 64)
		if err != nil && !math.IsInf(want, 0) {
			t.Fatalf("strconv rejects %q", s)
		}
		got := ToNumberDecimal(s)
		if math.Float64bits(got) != math.Float64bits(want) {
			t.Fatalf("ToNumberDecimal(%q)=%x strconv=%x", s, math.Float64bits(got), math.Float64bits(want))
		}
	}
	for _, x := range domain() {
		ax := math.Abs(x)
		ed := ExactDecimal(ax)
		check(ed.Scientific())
		for _, l := range []int{1, 2, 3, 15, 16, 17, 18, 19, 20, 21, 30, 100, 766, 767, 768} {
			if l < len(ed.Digits) {
				check(Dec{Digits: ed.Digits[:l], N: ed.N}.Scientific())
			}
		}
		if ax < math.MaxFloat64 {
			mp := Midpoint(ax)
			up := math.Nextafter(ax, math.Inf(1))
			tie := ToNumberDecimal(mp.Scientific())
			evenOne := ax
			if math.Float64bits(ax)&1 == 1 {
				evenOne = up
			}
			if tie != evenOne {
				t.Fatalf("tie of %x -> %x", math.Float64bits(ax), math.Float64bits(tie))
			}
			check(mp.Scientific())
			above := Dec{Digits: mp.Digits + "0000000001", N: mp.N}
			if ToNumberDecimal(above.Scientific()) != up {
				t.Fatalf("above tie")
			}
			check(above.Scientific())
			below := Dec{Digits: mp.Digits[:len(mp.Digits)-1] + string(mp.Digits[len(mp.Digits)-1]-1) + "9999999999", N: mp.N}
			if ToNumberDecimal(below.Scientific()) != ax {
				t.Fatalf("below tie %x %s -> %x", math.Float64bits(ax), below.Scientific(), math.Float64bits(ToNumberDecimal(below.Scientific())))
			}
			check(below.Scientific())
			// Rat.Float64 as a third opinion
			r, _ := new(big.Rat).SetString(mp.Scientific())
			rf, _ := r.Float64()
			if rf != tie {
				t.Fatalf("Rat tie of %x", math.Float64bits(ax))
			}
		}
	}
	for _, s := range []string{"0", "-0", "+0", "0.0", ".5", "5.", "5.e1", "-.5e-1", "1e400", "-1e400", "1e-400", "-1e-400", "00012", "1E2", "1e+2",
		"179769313486231580793728971405303415079934132710037826936173778980444968292764750946649017977587207096330286416692887910946555547851940402630657488671505820681908902000708383676273854845817711531764475730270069855571366959622842914819860834936475292719074168444365510704342711559699508093042880177904174497791", "1.7976931348623158e308", "4.9406564584124654e-324", "2.4703282292062327e-324", "2.4703282292062328e-324"} {
		check(s)
	}
	if !math.IsNaN(ToNumberDecimal(".")) || !math.IsNaN(ToNumberDecimal("e5")) || !math.IsNaN(ToNumberDecimal("1e")) || !math.IsNaN(ToNumberDecimal("+")) || !math.IsNaN(ToNumberDecimal("1.5.2")) || !math.IsNaN(ToNumberDecimal(".e1")) {
		t.Fatal("syntax")
	}
	if ToNumberDecimal("") != 0 || !math.Signbit(ToNumberDecimal("-0")) || !math.Signbit(ToNumberDecimal("-00.0e5")) {
		t.Fatal("zero")
	}
	if ParseFloat("1.5.2") != 1.5 || ParseFloat("1e") != 1 || ParseFloat("5.e") != 5 || ParseFloat(".5x") != .5 || !math.IsNaN(ParseFloat(".e1")) || ParseFloat("-Infinityx") != math.Inf(-1) || ParseFloat("1e+") != 1 {
		t.Fatal("parseFloat")
	}
	if ParseInt("123abc", 10) != 123 || ParseInt("0x1f", 0) != 31 || ParseInt("0x1f", 16) != 31 || ParseInt("0x1f", 10) != 0 || ParseInt("-ff", 16) != -255 || !math.IsNaN(ParseInt("z", 10)) ||
		!math.Signbit(ParseInt("-0", 10)) || ParseInt("9007199254740993", 10) != 9007199254740992 || ParseInt("9007199254740995", 10) != 9007199254740996 || ParseInt("1e3", 0) != 1 || ParseInt("zz", 36) != 1295 {
		t.Fatal("parseInt")
	}
	if v, ok := ParseRadix("-ff.8", 16); !ok || v != -255.5 {
		t.Fatal("ParseRadix")
	}
	if v, ok := ParseRadix("0.1", 3); !ok || v != 1.0/3 {
		t.Fatal("ParseRadix 1/3", v)
	}
	if _, ok := ParseRadix("1.", 10); ok {
		t.Fatal("ParseRadix form")
	}
}
