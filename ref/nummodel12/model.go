// Package nummodel12 is the reference model of property C12: exact Number <-> string conversion
// semantics of ECMAScript, written with math/big integer arithmetic only (no floating-point
// arithmetic decides anything, no strconv, no goja).
//
// A finite double x is m * 2^e exactly (Decompose). Its exact decimal expansion is a finite digit
// string (ExactDecimal); toFixed / toExponential / toPrecision are roundings of that string
// ("n/10^f - x as close to zero as possible; if two such n pick the larger" = round half up on the
// magnitude). The shortest round-trip digits and every string -> number conversion are decided by
// comparing integers obtained by cross-multiplication.
package nummodel12

import (
	"math"
	"math/big"
	"strconv"
	"strings"
)

// ---------------------------------------------------------------------------------------------
// doubles as exact integers

// Decompose returns m, e with |x| = m * 2^e exactly (x finite).
func Decompose(x float64) (m uint64, e int) {
	b := math.Float64bits(x)
	frac := b & (1<<52 - 1)
	ex := int(b>>52) & 0x7ff
	if ex == 0 {
		return frac, -1074
	}
	return frac | 1<<52, ex - 1075
}

var pow10tab, pow5tab []*big.Int

const tabMax = 1300

func init() {
	pow10tab = make([]*big.Int, tabMax+1)
	pow5tab = make([]*big.Int, tabMax+1)
	pow10tab[0] = big.NewInt(1)
	pow5tab[0] = big.NewInt(1)
	ten, five := big.NewInt(10), big.NewInt(5)
	for i := 1; i <= tabMax; i++ {
		pow10tab[i] = new(big.Int).Mul(pow10tab[i-1], ten)
		pow5tab[i] = new(big.Int).Mul(pow5tab[i-1], five)
	}
}

// Pow10 returns 10^n (n >= 0) as a shared big.Int that must not be modified.
func Pow10(n int) *big.Int {
	if n <= tabMax {
		return pow10tab[n]
	}
	return new(big.Int).Exp(big.NewInt(10), big.NewInt(int64(n)), nil)
}

func pow5(n int) *big.Int {
	if n <= tabMax {
		return pow5tab[n]
	}
	return new(big.Int).Exp(big.NewInt(5), big.NewInt(int64(n)), nil)
}

// Dec is a non-negative decimal: value = 0.D1D2...Dk * 10^N (Digits has no leading and no trailing
// zeros; zero is Digits=="" and N==0).
type Dec struct {
	Digits string
	N      int
}

// ExactDecimal is the exact decimal expansion of |x| (x finite).
func ExactDecimal(x float64) Dec {
	m, e := Decompose(x)
	if m == 0 {
		return Dec{}
	}
	I := new(big.Int).SetUint64(m)
	var s string
	var n int
	if e >= 0 {
		I.Lsh(I, uint(e))
		s = I.String()
		n = len(s)
	} else {
		I.Mul(I, pow5(-e))
		s = I.String()
		n = len(s) + e
	}
	return Dec{Digits: strings.TrimRight(s, "0"), N: n}
}

// incr adds one unit in the last place of the digit string; carry reports a carry out of the first digit
// (the result is then "1000…" of the same length and the decimal point moves right by one).
func incr(d []byte) (carry bool) {
	for i := len(d) - 1; i >= 0; i-- {
		if d[i] != '9' {
			d[i]++
			return false
		}
		d[i] = '0'
	}
	d[0] = '1'
	return true
}

// RoundSig rounds d (non-zero) to exactly p >= 1 significant digits, ties away from zero ("pick the larger n").
// It returns the p digits and n' such that the rounded value is 0.digits * 10^n'.
func RoundSig(d Dec, p int) (string, int) {
	if len(d.Digits) <= p {
		return d.Digits + strings.Repeat("0", p-len(d.Digits)), d.N
	}
	out := []byte(d.Digits[:p])
	n := d.N
	if d.Digits[p] >= '5' {
		if incr(out) {
			n++
		}
	}
	return string(out), n
}

// RoundFrac rounds d to f >= 0 fraction digits, ties up, and returns the decimal digits of the integer
// n = round(value * 10^f) without leading zeros ("0" for zero).
func RoundFrac(d Dec, f int) string {
	if d.Digits == "" {
		return "0"
	}
	// value*10^f = 0.Digits * 10^(N+f); the integer part has N+f digits
	ip := d.N + f
	switch {
	case ip < 0:
		return "0" // value*10^f < 0.1
	case ip == 0:
		if d.Digits[0] >= '5' {
			return "1"
		}
		return "0"
	case ip >= len(d.Digits):
		return d.Digits + strings.Repeat("0", ip-len(d.Digits))
	}
	out := []byte(d.Digits[:ip])
	if d.Digits[ip] >= '5' {
		if incr(out) {
			out = append(out, '0')
		}
	}
	return string(out)
}

// ---------------------------------------------------------------------------------------------
// rounding interval of a double and the shortest digits

// interval describes x and the set of reals that round to x (nearest, ties to even) in units of
// 2^(e-2): x = X4, the reals strictly between Lo4 and Hi4 round to x, and the end points themselves
// do iff Closed.
type interval struct {
	X4, Lo4, Hi4 *big.Int
	E            int // the unit is 2^(E-2)
	Closed       bool
}

func intervalOf(x float64) interval {
	m, e := Decompose(x)
	iv := interval{E: e, Closed: m&1 == 0}
	iv.X4 = new(big.Int).SetUint64(m)
	iv.X4.Lsh(iv.X4, 2)
	iv.Hi4 = new(big.Int).Add(iv.X4, big.NewInt(2))
	if m == 1<<52 && e > -1074 {
		iv.Lo4 = new(big.Int).Sub(iv.X4, big.NewInt(1))
	} else {
		iv.Lo4 = new(big.Int).Sub(iv.X4, big.NewInt(2))
	}
	return iv
}

// scales returns A, B with (s*10^q) / 2^(E-2) = s*B/A.
func (iv *interval) scales(q int) (A, B *big.Int) {
	A, B = big.NewInt(1), big.NewInt(1)
	if q >= 0 {
		B.Set(Pow10(q))
	} else {
		A.Set(Pow10(-q))
	}
	if iv.E-2 >= 0 {
		A.Lsh(A, uint(iv.E-2))
	} else {
		B.Lsh(B, uint(2-iv.E))
	}
	return
}

// cmpParts returns the position of v = s*10^q relative to the interval (-2 below/at an open lower end,
// 0 inside, +2 above) and the sign of v-x.
func (iv *interval) classify(s *big.Int, A, B *big.Int) (in bool, sideOfX int, dist *big.Int) {
	v := new(big.Int).Mul(s, B)
	lo := new(big.Int).Mul(iv.Lo4, A)
	hi := new(big.Int).Mul(iv.Hi4, A)
	xx := new(big.Int).Mul(iv.X4, A)
	cl, ch := v.Cmp(lo), v.Cmp(hi)
	if iv.Closed {
		in = cl >= 0 && ch <= 0
	} else {
		in = cl > 0 && ch < 0
	}
	sideOfX = v.Cmp(xx)
	dist = v.Sub(v, xx)
	dist.Abs(dist)
	return
}

// Shortest returns the digits (k of them, no leading/trailing zeros... the last digit is never '0' unless k==1)
// and n such that 0.digits*10^n is the shortest decimal that rounds to |x| (x finite, non-zero), the one
// closest to x among the shortest (ties: even last digit).
func Shortest(x float64) (string, int) {
	iv := intervalOf(x)
	ed := ExactDecimal(x)
	for k := 1; k <= 17; k++ {
		q := ed.N - k
		A, B := iv.scales(q)
		num := new(big.Int).Mul(iv.X4, A)
		sLow := new(big.Int).Quo(num, B)
		sHigh := new(big.Int).Add(sLow, big.NewInt(1))
		inL, _, dL := iv.classify(sLow, A, B)
		inH, _, dH := iv.classify(sHigh, A, B)
		if sLow.Sign() == 0 {
			inL = false
		}
		var pick *big.Int
		switch {
		case inL && inH:
			switch c := dL.Cmp(dH); {
			case c < 0:
				pick = sLow
			case c > 0:
				pick = sHigh
			case sLow.Bit(0) == 0:
				pick = sLow
			default:
				pick = sHigh
			}
		case inL:
			pick = sLow
		case inH:
			pick = sHigh
		default:
			continue
		}
		s := pick.String()
		n := q + len(s)
		s = strings.TrimRight(s, "0")
		return s, n
	}
	panic("nummodel12: no 17-digit decimal rounds to x")
}

// Shortness verdicts of VerifyShortest.
const (
	OK            = 0
	NotRoundTrip  = 1 // the digits do not denote a real that rounds to x
	NotShortest   = 2 // a decimal with fewer digits rounds to x
	NotClosest    = 3 // another decimal of the same length that rounds to x is strictly closer to x
	BadDigitsForm = 4 // leading/trailing zero, empty, non-digit
)

// VerifyShortest decides whether 0.digits*10^n is an acceptable shortest representation of |x|
// (x finite and non-zero) without generating one.
func VerifyShortest(x float64, digits string, n int) int {
	var v Verifier
	return v.Verify(x, digits, n)
}

// Verifier is VerifyShortest with reusable scratch space (one per goroutine).
//
// With |x| = m*2^e, unit u = 2^(e-2): x = 4m u, the reals that round to x lie between (4m-c) u and (4m+2) u
// (c = 1 if x is a power of two above the smallest normal, else 2; end points included iff m is even).
// A candidate s*10^q is compared with them after cross-multiplication: s*B versus (4m+-..)*A where
// B/A = 10^q / 2^(e-2), A and B integers.
//
// Shorter candidates: every decimal with fewer than k digits in x's decade (and the power of ten above it) is
// a multiple of 10^(q+1); if one of them rounded to x, then - the set of reals rounding to x being convex and
// containing both x and the k-digit output v - so would the multiple just below or just above v. So only
// floor(s/10)*10^(q+1) and that plus 10^(q+1) are tested.
type Verifier struct {
	a, b, v, lo, hi, xx, t, d1, d2 big.Int
}

func (w *Verifier) Verify(x float64, digits string, n int) int {
	k := len(digits)
	if k == 0 || digits[0] == '0' || (k > 1 && digits[k-1] == '0') {
		return BadDigitsForm
	}
	if k > 19 {
		for _, c := range []byte(digits) {
			if c < '0' || c > '9' {
				return BadDigitsForm
			}
		}
		return NotShortest // 17 digits always suffice
	}
	var s uint64
	for _, c := range []byte(digits) {
		if c < '0' || c > '9' {
			return BadDigitsForm
		}
		s = s*10 + uint64(c-'0')
	}
	m, e := Decompose(x)
	x4 := m << 2
	hi4 := x4 + 2
	lo4 := x4 - 2
	if m == 1<<52 && e > -1074 {
		lo4 = x4 - 1
	}
	closed := m&1 == 0
	q := n - k
	// A, B
	if q >= 0 {
		w.a.SetUint64(1)
		w.b.Set(Pow10(q))
	} else {
		w.a.Set(Pow10(-q))
		w.b.SetUint64(1)
	}
	if e-2 >= 0 {
		w.a.Lsh(&w.a, uint(e-2))
	} else {
		w.b.Lsh(&w.b, uint(2-e))
	}
	mulU := func(dst *big.Int, u uint64, f *big.Int) { dst.SetUint64(u); dst.Mul(dst, f) }
	mulU(&w.lo, lo4, &w.a)
	mulU(&w.hi, hi4, &w.a)
	mulU(&w.xx, x4, &w.a)
	inside := func(v *big.Int) bool {
		cl, ch := v.Cmp(&w.lo), v.Cmp(&w.hi)
		if closed {
			return cl >= 0 && ch <= 0
		}
		return cl > 0 && ch < 0
	}
	mulU(&w.v, s, &w.b)
	if !inside(&w.v) {
		return NotRoundTrip
	}
	if k > 1 {
		c := s / 10 * 10
		mulU(&w.t, c, &w.b)
		if inside(&w.t) {
			return NotShortest
		}
		mulU(&w.t, c+10, &w.b)
		if inside(&w.t) {
			return NotShortest
		}
	}
	w.d1.Sub(&w.v, &w.xx)
	w.d1.Abs(&w.d1)
	for _, o := range []uint64{s - 1, s + 1} {
		if o == 0 {
			continue
		}
		mulU(&w.t, o, &w.b)
		if inside(&w.t) {
			w.d2.Sub(&w.t, &w.xx)
			w.d2.Abs(&w.d2)
			if w.d2.Cmp(&w.d1) < 0 {
				return NotClosest
			}
		}
	}
	return OK
}

// ---------------------------------------------------------------------------------------------
// ECMAScript formatting

func expStr(e int) string {
	if e >= 0 {
		return "e+" + strconv.Itoa(e)
	}
	return "e-" + strconv.Itoa(-e)
}

func special(x float64) (string, bool) {
	switch {
	case math.IsNaN(x):
		return "NaN", true
	case math.IsInf(x, 1):
		return "Infinity", true
	case math.IsInf(x, -1):
		return "-Infinity", true
	}
	return "", false
}

// FormatShortest lays out k digits with decimal point position n as Number::toString does (radix 10).
func FormatShortest(digits string, n int) string {
	k := len(digits)
	switch {
	case k <= n && n <= 21:
		return digits + strings.Repeat("0", n-k)
	case 0 < n && n <= 21:
		return digits[:n] + "." + digits[n:]
	case -6 < n && n <= 0:
		return "0." + strings.Repeat("0", -n) + digits
	}
	if k == 1 {
		return digits + expStr(n-1)
	}
	return digits[:1] + "." + digits[1:] + expStr(n-1)
}

// ToString is Number::toString(x, 10).
func ToString(x float64) string {
	if s, ok := special(x); ok {
		return s
	}
	if x == 0 {
		return "0"
	}
	sign := ""
	if x < 0 {
		sign = "-"
	}
	d, n := Shortest(x)
	return sign + FormatShortest(d, n)
}

// Num is a double together with its exact decimal expansion (computed once, used for every digit count).
type Num struct {
	X     float64
	dec   Dec
	have  bool
	str   string
	haveS bool
}

// String is Number::toString(X, 10), computed once.
func (n *Num) String() string {
	if !n.haveS {
		n.haveS = true
		n.str = ToString(n.X)
	}
	return n.str
}

// Of prepares x; the expansion is computed on first use.
func Of(x float64) Num { return Num{X: x} }

// Dec is the exact expansion of |X| (zero value for 0 and non-finite X).
func (n *Num) Dec() Dec {
	if !n.have {
		n.have = true
		if !math.IsNaN(n.X) && !math.IsInf(n.X, 0) {
			n.dec = ExactDecimal(n.X)
		}
	}
	return n.dec
}

// Dropped reports whether keeping `keep` significant digits of the exact expansion drops non-zero digits
// (a rounding decision has to be made) and whether what is dropped is exactly one half unit (a tie).
func (n *Num) Dropped(keep int) (drops, tie bool) {
	if keep < 0 {
		keep = 0
	}
	if keep >= len(n.Dec().Digits) {
		return false, false
	}
	return true, n.Dec().Digits[keep:] == "5"
}

// ToFixed is Number.prototype.toFixed(f) for 0 <= f <= 100.
func (n *Num) ToFixed(f int) string {
	x := n.X
	if s, ok := special(x); ok {
		return s
	}
	if n.Dec().N >= 22 { // |x| >= 10^21
		return n.String()
	}
	sign := ""
	if x < 0 { // -0 is not < 0
		sign = "-"
	}
	m := RoundFrac(n.Dec(), f)
	if f != 0 {
		if len(m) <= f {
			m = strings.Repeat("0", f+1-len(m)) + m
		}
		m = m[:len(m)-f] + "." + m[len(m)-f:]
	}
	return sign + m
}

// ToExponential is Number.prototype.toExponential(f) for 0 <= f <= 100; f < 0 means "undefined"
// (as many digits as necessary).
func (n *Num) ToExponential(f int) string {
	x := n.X
	if s, ok := special(x); ok {
		return s
	}
	sign := ""
	if x < 0 {
		sign = "-"
	}
	var m string
	var e int
	if x == 0 {
		if f < 0 {
			f = 0
		}
		m, e = strings.Repeat("0", f+1), 0
	} else if f < 0 {
		d, k := Shortest(x)
		m, e = d, k-1
	} else {
		d, k := RoundSig(n.Dec(), f+1)
		m, e = d, k-1
	}
	if len(m) > 1 {
		m = m[:1] + "." + m[1:]
	}
	return sign + m + expStr(e)
}

// ToPrecision is Number.prototype.toPrecision(p) for 1 <= p <= 100.
func (n *Num) ToPrecision(p int) string {
	x := n.X
	if s, ok := special(x); ok {
		return s
	}
	sign := ""
	if x < 0 {
		sign = "-"
	}
	var m string
	var e int
	if x == 0 {
		m, e = strings.Repeat("0", p), 0
	} else {
		d, k := RoundSig(n.Dec(), p)
		m, e = d, k-1
		if e < -6 || e >= p {
			if p > 1 {
				m = m[:1] + "." + m[1:]
			}
			return sign + m + expStr(e)
		}
	}
	if e == p-1 {
		return sign + m
	}
	if e >= 0 {
		return sign + m[:e+1] + "." + m[e+1:]
	}
	return sign + "0." + strings.Repeat("0", -(e+1)) + m
}

func ToFixed(x float64, f int) string       { n := Of(x); return n.ToFixed(f) }
func ToExponential(x float64, f int) string { n := Of(x); return n.ToExponential(f) }
func ToPrecision(x float64, p int) string   { n := Of(x); return n.ToPrecision(p) }

// ---------------------------------------------------------------------------------------------
// exact string -> double

// RoundRat returns the double nearest to num/den (num >= 0, den > 0), ties to even, +Inf on overflow.
func RoundRat(num, den *big.Int) float64 {
	if num.Sign() == 0 {
		return 0
	}
	// binary exponent E with 2^E <= num/den < 2^(E+1)
	bl := num.BitLen() - den.BitLen()
	E := bl
	t := new(big.Int)
	if bl >= 0 {
		t.Lsh(den, uint(bl))
		if num.Cmp(t) < 0 {
			E--
		}
	} else {
		t.Lsh(num, uint(-bl))
		if t.Cmp(den) < 0 {
			E--
		}
	}
	if E > 1024 {
		return math.Inf(1)
	}
	ue := E - 52
	if ue < -1074 {
		ue = -1074
	}
	n2, d2 := new(big.Int).Set(num), new(big.Int).Set(den)
	if ue >= 0 {
		d2.Lsh(d2, uint(ue))
	} else {
		n2.Lsh(n2, uint(-ue))
	}
	q, r := new(big.Int).QuoRem(n2, d2, new(big.Int))
	r.Lsh(r, 1)
	if c := r.Cmp(d2); c > 0 || (c == 0 && q.Bit(0) == 1) {
		q.Add(q, big.NewInt(1))
	}
	if q.BitLen() > 54 {
		panic("nummodel12: mantissa too wide")
	}
	mant := q.Uint64() // <= 2^53
	if mant == 0 {
		return 0
	}
	// mant * 2^ue, exact: mant <= 2^53 is a double, and scaling by a power of two is exact when the result
	// is representable, which it is by construction (ue >= -1074 and mant*2^ue has <= 53 significant bits).
	if mant == 1<<53 {
		mant >>= 1
		ue++
	}
	if ue+52 > 1023 {
		return math.Inf(1)
	}
	if mant < 1<<52 { // subnormal (only when ue == -1074)
		return math.Float64frombits(mant)
	}
	return math.Float64frombits(uint64(ue+1075)<<52 | (mant &^ (1 << 52)))
}

// RoundDecimal returns the double nearest to D * 10^q (D >= 0).
func RoundDecimal(D *big.Int, q int) float64 {
	if D.Sign() == 0 {
		return 0
	}
	// cheap range cuts so that absurd exponents do not build astronomically large integers
	digits := len(D.Text(16))*5/4 + 2 // >= number of decimal digits
	if q > 400 {
		return math.Inf(1)
	}
	if q+digits < -400 {
		return 0
	}
	if q >= 0 {
		return RoundRat(new(big.Int).Mul(D, Pow10(q)), big.NewInt(1))
	}
	return RoundRat(D, Pow10(-q))
}

func isDigit(c byte) bool { return c >= '0' && c <= '9' }

// scanDecimal scans the longest prefix of s that is a StrDecimalLiteral (without Infinity):
// [+-] ( digits [. [digits]] | . digits ) [ (e|E) [+-] digits ]. It returns the prefix length (0 = none), the
// sign, the integer of all mantissa digits and the decimal exponent.
func scanDecimal(s string) (n int, neg bool, D *big.Int, q int) {
	i := 0
	if i < len(s) && (s[i] == '+' || s[i] == '-') {
		neg = s[i] == '-'
		i++
	}
	st := i
	for i < len(s) && isDigit(s[i]) {
		i++
	}
	intDigits := s[st:i]
	fracDigits := ""
	if i < len(s) && s[i] == '.' {
		j := i + 1
		for j < len(s) && isDigit(s[j]) {
			j++
		}
		if intDigits != "" || j > i+1 {
			fracDigits = s[i+1 : j]
			i = j
		}
	}
	if intDigits == "" && fracDigits == "" {
		return 0, false, nil, 0
	}
	if i < len(s) && (s[i] == 'e' || s[i] == 'E') {
		j := i + 1
		eneg := false
		if j < len(s) && (s[j] == '+' || s[j] == '-') {
			eneg = s[j] == '-'
			j++
		}
		st := j
		for j < len(s) && isDigit(s[j]) {
			j++
		}
		if j > st {
			ev := 0
			for _, c := range []byte(s[st:j]) {
				if ev < 1<<24 {
					ev = ev*10 + int(c-'0')
				}
			}
			if eneg {
				ev = -ev
			}
			q = ev
			i = j
		}
	}
	all := strings.TrimLeft(intDigits+fracDigits, "0")
	D = new(big.Int)
	if all != "" {
		D.SetString(all, 10)
	}
	q -= len(fracDigits)
	return i, neg, D, q
}

func signed(neg bool, f float64) float64 {
	if neg {
		return -f
	}
	return f
}

// ToNumberDecimal is StringToNumber restricted to StrDecimalLiteral inputs without white space
// (what C12 enumerates): the whole of s must be a decimal literal or [+-]Infinity, otherwise NaN.
// The empty string is +0.
func ToNumberDecimal(s string) float64 {
	if s == "" {
		return 0
	}
	switch s {
	case "Infinity", "+Infinity":
		return math.Inf(1)
	case "-Infinity":
		return math.Inf(-1)
	}
	n, neg, D, q := scanDecimal(s)
	if n != len(s) || n == 0 {
		return math.NaN()
	}
	return signed(neg, RoundDecimal(D, q))
}

// ParseFloat is the global parseFloat on a string without leading white space.
func ParseFloat(s string) float64 {
	for _, p := range []struct {
		s string
		v float64
	}{{"Infinity", math.Inf(1)}, {"+Infinity", math.Inf(1)}, {"-Infinity", math.Inf(-1)}} {
		if strings.HasPrefix(s, p.s) {
			return p.v
		}
	}
	n, neg, D, q := scanDecimal(s)
	if n == 0 {
		return math.NaN()
	}
	return signed(neg, RoundDecimal(D, q))
}

func digitVal(c byte) int {
	switch {
	case c >= '0' && c <= '9':
		return int(c - '0')
	case c >= 'a' && c <= 'z':
		return int(c-'a') + 10
	case c >= 'A' && c <= 'Z':
		return int(c-'A') + 10
	}
	return 99
}

// ParseInt is the global parseInt(s, radix) on a string without leading white space, with the EXACT
// mathematical integer (the property demands the nearest double; the latitude the specification gives
// for radix 10 beyond 20 digits and for radices other than 2,4,8,10,16,32 is reported by Latitude).
func ParseInt(s string, radix int) float64 {
	neg := false
	if s != "" && (s[0] == '+' || s[0] == '-') {
		neg = s[0] == '-'
		s = s[1:]
	}
	strip := true
	if radix != 0 {
		if radix < 2 || radix > 36 {
			return math.NaN()
		}
		if radix != 16 {
			strip = false
		}
	} else {
		radix = 10
	}
	if strip && len(s) >= 2 && s[0] == '0' && (s[1] == 'x' || s[1] == 'X') {
		s = s[2:]
		radix = 16
	}
	end := 0
	for end < len(s) && digitVal(s[end]) < radix {
		end++
	}
	if end == 0 {
		return math.NaN()
	}
	z := strings.ToLower(s[:end])
	I, ok := new(big.Int).SetString(z, radix)
	if !ok {
		panic("nummodel12: SetString " + z)
	}
	return signed(neg, RoundRat(I, big.NewInt(1)))
}

// ParseRadix returns the double nearest to the real denoted by a radix-r string of the form
// [-] digits [. digits] (what Number.prototype.toString(r) must produce), ok=false if s is not of that form.
func ParseRadix(s string, radix int) (float64, bool) {
	neg := false
	if s != "" && s[0] == '-' {
		neg = true
		s = s[1:]
	}
	ip, fp := s, ""
	hasPoint := false
	if i := strings.IndexByte(s, '.'); i >= 0 {
		ip, fp = s[:i], s[i+1:]
		hasPoint = true
	}
	if ip == "" || (hasPoint && fp == "") {
		return 0, false
	}
	for _, c := range []byte(ip + fp) {
		if digitVal(c) >= radix || (c >= 'A' && c <= 'Z') {
			return 0, false
		}
	}
	num, ok := new(big.Int).SetString(ip+fp, radix)
	if !ok {
		return 0, false
	}
	den := new(big.Int).Exp(big.NewInt(int64(radix)), big.NewInt(int64(len(fp))), nil)
	return signed(neg, RoundRat(num, den)), true
}

// Midpoint returns the exact decimal expansion of the real halfway between |x| and the next double of
// larger magnitude (x finite, not the largest double): digits and n as in Dec.
func Midpoint(x float64) Dec {
	m, e := Decompose(x)
	I := new(big.Int).SetUint64(m)
	I.Lsh(I, 1)
	I.Add(I, big.NewInt(1))
	e--
	var s string
	var n int
	if e >= 0 {
		I.Lsh(I, uint(e))
		s = I.String()
		n = len(s)
	} else {
		I.Mul(I, pow5(-e))
		s = I.String()
		n = len(s) + e
	}
	return Dec{Digits: strings.TrimRight(s, "0"), N: n}
}

// String renders the decimal as digits with an exponent: "D.DDDe±X" style is avoided on purpose, the
// form is <digits>e<q> or a positional form chosen by the caller; see Positional / Scientific.
func (d Dec) Scientific() string {
	if d.Digits == "" {
		return "0"
	}
	if len(d.Digits) == 1 {
		return d.Digits + "e" + strconv.Itoa(d.N-1)
	}
	return d.Digits[:1] + "." + d.Digits[1:] + "e" + strconv.Itoa(d.N-1)
}

// Positional renders the decimal without an exponent.
func (d Dec) Positional() string {
	k := len(d.Digits)
	switch {
	case k == 0:
		return "0"
	case d.N >= k:
		return d.Digits + strings.Repeat("0", d.N-k)
	case d.N > 0:
		return d.Digits[:d.N] + "." + d.Digits[d.N:]
	}
	return "0." + strings.Repeat("0", -d.N) + d.Digits
}

// ParseRadixDigit returns the digit character of value v (0..35).
func ParseRadixDigit(v int) string { return string("0123456789abcdefghijklmnopqrstuvwxyz"[v]) }
