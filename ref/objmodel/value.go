// Package objmodel is a small, deliberately boring Go reference model of the ECMAScript object
// model: ordinary-object internal methods (ECMA-262 §10.1), ValidateAndApplyPropertyDescriptor,
// OrdinaryGet/OrdinarySet with receiver, OrdinaryOwnPropertyKeys, and the Array (§10.4.2),
// String (§10.4.3), mapped arguments (§10.4.4) and TypedArray (§10.4.5) exotic variants, plus the
// abstract operations that Object.* / Reflect.* are specified with (SetIntegrityLevel,
// TestIntegrityLevel, FromPropertyDescriptor, EnumerableOwnProperties, for-in key order,
// Object.assign, CopyDataProperties).
//
// It imports nothing from the engine under test. Property storage is an insertion-ordered slice
// that is searched linearly; nothing is cached and nothing is lazy.
package objmodel

import (
	"math"
	"strconv"
	"strings"
)

type VKind uint8

const (
	KUndefined VKind = iota
	KNull
	KBool
	KNumber
	KString
	KSymbol
	KObject
)

// Symbol identity is pointer identity; Name is used only when rendering.
type Symbol struct{ Name string }

// Value is an ECMAScript language value (no BigInt).
type Value struct {
	K VKind
	B bool
	N float64
	S string
	Y *Symbol
	O *Object
}

var Undefined = Value{}
var Null = Value{K: KNull}

func Bool(b bool) Value       { return Value{K: KBool, B: b} }
func Num(n float64) Value     { return Value{K: KNumber, N: n} }
func Str(s string) Value      { return Value{K: KString, S: s} }
func SymV(y *Symbol) Value    { return Value{K: KSymbol, Y: y} }
func ObjV(o *Object) Value    { return Value{K: KObject, O: o} }
func (v Value) IsUndef() bool { return v.K == KUndefined }
func (v Value) IsObject() bool {
	return v.K == KObject
}

// ObjOrNil returns the object of an object value, nil otherwise.
func (v Value) ObjOrNil() *Object {
	if v.K == KObject {
		return v.O
	}
	return nil
}

// SameValue is ECMA-262 SameValue.
func SameValue(a, b Value) bool {
	if a.K != b.K {
		return false
	}
	switch a.K {
	case KBool:
		return a.B == b.B
	case KNumber:
		if math.IsNaN(a.N) && math.IsNaN(b.N) {
			return true
		}
		if a.N == 0 && b.N == 0 {
			return math.Signbit(a.N) == math.Signbit(b.N)
		}
		return a.N == b.N
	case KString:
		return a.S == b.S
	case KSymbol:
		return a.Y == b.Y
	case KObject:
		return a.O == b.O
	}
	return true
}

// NumberToString is Number::toString(x, 10) for the values the checks use (integers below 1e21 and
// short decimals); other magnitudes fall back to the shortest round-trip form in JS exponent style.
func NumberToString(n float64) string {
	switch {
	case math.IsNaN(n):
		return "NaN"
	case n == 0:
		return "0"
	case math.IsInf(n, 1):
		return "Infinity"
	case math.IsInf(n, -1):
		return "-Infinity"
	}
	if n == math.Trunc(n) && math.Abs(n) < 1e21 {
		return strconv.FormatFloat(n, 'f', 0, 64)
	}
	if a := math.Abs(n); a >= 1e-6 && a < 1e21 {
		return strconv.FormatFloat(n, 'f', -1, 64)
	}
	s := strconv.FormatFloat(n, 'e', -1, 64) // d.ddde±XX
	mant, exp, _ := strings.Cut(s, "e")
	sign := exp[:1]
	exp = strings.TrimLeft(exp[1:], "0")
	if sign == "+" {
		return mant + "e+" + exp
	}
	return mant + "e-" + exp
}

// StringToNumber covers StringNumericLiteral for decimal literals, Infinity, empty/blank strings and
// 0x/0o/0b integers; anything else is NaN.
func StringToNumber(s string) float64 {
	s = strings.Trim(s, " \t\n\r\v\f\u00a0\ufeff\u2028\u2029")
	if s == "" {
		return 0
	}
	switch s {
	case "Infinity", "+Infinity":
		return math.Inf(1)
	case "-Infinity":
		return math.Inf(-1)
	}
	if len(s) > 2 && s[0] == '0' {
		base := 0
		switch s[1] {
		case 'x', 'X':
			base = 16
		case 'o', 'O':
			base = 8
		case 'b', 'B':
			base = 2
		}
		if base != 0 {
			u, err := strconv.ParseUint(s[2:], base, 64)
			if err != nil {
				return math.NaN()
			}
			return float64(u)
		}
	}
	for _, c := range s { // only decimal literal characters (ParseFloat also accepts "inf", "nan", hex floats, "_")
		if !(c >= '0' && c <= '9' || c == '.' || c == 'e' || c == 'E' || c == '+' || c == '-') {
			return math.NaN()
		}
	}
	f, err := strconv.ParseFloat(s, 64)
	if err != nil {
		if ne, ok := err.(*strconv.NumError); ok && ne.Err == strconv.ErrRange {
			return f
		}
		return math.NaN()
	}
	return f
}

// Throw is an abrupt completion; only the error class is modelled.
type Throw struct{ Type string }

func TypeError() *Throw  { return &Throw{"TypeError"} }
func RangeError() *Throw { return &Throw{"RangeError"} }

// ToNumber for primitives. Objects are outside the model (the checks never pass them where a number is needed).
func ToNumber(v Value) (float64, *Throw) {
	switch v.K {
	case KUndefined:
		return math.NaN(), nil
	case KNull:
		return 0, nil
	case KBool:
		if v.B {
			return 1, nil
		}
		return 0, nil
	case KNumber:
		return v.N, nil
	case KString:
		return StringToNumber(v.S), nil
	case KSymbol:
		return 0, TypeError()
	}
	panic("objmodel: ToNumber(object) is outside the model")
}

func ToUint32(n float64) uint32 {
	if math.IsNaN(n) || math.IsInf(n, 0) {
		return 0
	}
	n = math.Trunc(n)
	n = math.Mod(n, 4294967296)
	if n < 0 {
		n += 4294967296
	}
	return uint32(n)
}

// Key is a property key: a string, or a symbol when Sym != nil.
type Key struct {
	Str string
	Sym *Symbol
}

func StrKey(s string) Key  { return Key{Str: s} }
func SymKey(y *Symbol) Key { return Key{Sym: y} }
func (k Key) IsSymbol() bool {
	return k.Sym != nil
}

// ArrayIndex reports whether k is an array index (canonical string of an integer in [0, 2^32-2]).
func (k Key) ArrayIndex() (uint32, bool) {
	if k.Sym != nil || k.Str == "" || len(k.Str) > 10 {
		return 0, false
	}
	if k.Str[0] == '0' && len(k.Str) > 1 {
		return 0, false
	}
	var n uint64
	for i := 0; i < len(k.Str); i++ {
		c := k.Str[i]
		if c < '0' || c > '9' {
			return 0, false
		}
		n = n*10 + uint64(c-'0')
	}
	if n >= 4294967295 {
		return 0, false
	}
	return uint32(n), true
}

// IntegerIndex reports whether k is an "integer index" in the sense of OrdinaryOwnPropertyKeys'
// first group. ECMA-262 orders *array indices* first (2^32-2 bound) — "for each own property key P of O
// such that P is an array index, in ascending numeric index order".
func (k Key) IntegerIndex() (uint32, bool) { return k.ArrayIndex() }

// CanonicalNumericIndex is CanonicalNumericIndexString: ok=false means undefined.
func (k Key) CanonicalNumericIndex() (float64, bool) {
	if k.Sym != nil {
		return 0, false
	}
	if k.Str == "-0" {
		return math.Copysign(0, -1), true
	}
	n := StringToNumberStrict(k.Str)
	if NumberToString(n) == k.Str {
		return n, true
	}
	return 0, false
}

// StringToNumberStrict is ToNumber(string) as used by CanonicalNumericIndexString (same as StringToNumber).
func StringToNumberStrict(s string) float64 { return StringToNumber(s) }
