package objmodel

import (
	"strconv"
	"strings"
)

// DefinePropertyOrThrow.
func DefinePropertyOrThrow(o *Object, k Key, d Desc) *Throw {
	ok, th := o.DefineOwnProperty(k, d)
	if th != nil {
		return th
	}
	if !ok {
		return TypeError()
	}
	return nil
}

// CreateDataProperty.
func CreateDataProperty(o *Object, k Key, v Value) (bool, *Throw) {
	return o.DefineOwnProperty(k, Desc{HasValue: true, Value: v, HasW: true, W: true, HasE: true, E: true, HasC: true, C: true})
}

// SetIntegrityLevel (§7.3.15); frozen=false means sealed.
func SetIntegrityLevel(o *Object, frozen bool) (bool, *Throw) {
	if !o.PreventExtensions() {
		return false, nil
	}
	keys := o.OwnKeys()
	if !frozen {
		for _, k := range keys {
			if th := DefinePropertyOrThrow(o, k, Desc{HasC: true, C: false}); th != nil {
				return false, th
			}
		}
		return true, nil
	}
	for _, k := range keys {
		cur, has := o.GetOwnProperty(k)
		if !has {
			continue
		}
		d := Desc{HasC: true, C: false}
		if !cur.Accessor {
			d.HasW = true
			d.W = false
		}
		if th := DefinePropertyOrThrow(o, k, d); th != nil {
			return false, th
		}
	}
	return true, nil
}

// TestIntegrityLevel (§7.3.16).
func TestIntegrityLevel(o *Object, frozen bool) bool {
	if o.IsExtensible() {
		return false
	}
	for _, k := range o.OwnKeys() {
		cur, has := o.GetOwnProperty(k)
		if !has {
			continue
		}
		if cur.C {
			return false
		}
		if frozen && !cur.Accessor && cur.W {
			return false
		}
	}
	return true
}

// EnumerableOwnKeys is EnumerableOwnProperties(O, key): own enumerable string keys in [[OwnPropertyKeys]] order.
func EnumerableOwnKeys(o *Object) []Key {
	var res []Key
	for _, k := range o.OwnKeys() {
		if k.Sym != nil {
			continue
		}
		if p, has := o.GetOwnProperty(k); has && p.E {
			res = append(res, k)
		}
	}
	return res
}

// ForInKeys is the key sequence of for-in over an object that is not modified during the loop
// (§14.7.5.10 EnumerateObjectProperties as pinned down by the for-in-order proposal): own string keys in
// [[OwnPropertyKeys]] order, then the prototype's, a key is reported once, a non-enumerable own key
// shadows an enumerable inherited one.
func ForInKeys(o *Object) []Key {
	var res []Key
	seen := map[string]bool{}
	for p := o; p != nil; p = p.Proto {
		for _, k := range p.OwnKeys() {
			if k.Sym != nil || seen[k.Str] {
				continue
			}
			seen[k.Str] = true
			if pr, has := p.GetOwnProperty(k); has && pr.E {
				res = append(res, k)
			}
		}
	}
	return res
}

// Assign is one source step of Object.assign(target, source) (§20.1.2.1 step 3.a.iii).
func Assign(target, source *Object) *Throw {
	for _, k := range source.OwnKeys() { // snapshot
		p, has := source.GetOwnProperty(k)
		if !has || !p.E {
			continue
		}
		v, th := source.Get(k, ObjV(source))
		if th != nil {
			return th
		}
		ok, th := target.Set(k, v, ObjV(target))
		if th != nil {
			return th
		}
		if !ok {
			return TypeError()
		}
	}
	return nil
}

// CopyDataProperties (§7.3.26) without excluded items: object spread {...source}.
func CopyDataProperties(target, source *Object) *Throw {
	for _, k := range source.OwnKeys() { // snapshot
		p, has := source.GetOwnProperty(k)
		if !has || !p.E {
			continue
		}
		v, th := source.Get(k, ObjV(source))
		if th != nil {
			return th
		}
		if _, th := CreateDataProperty(target, k, v); th != nil {
			return th
		}
	}
	return nil
}

// ---------------------------------------------------------------- rendering

// RenderValue renders a value the way the JS side of a check names it: undefined, null, true, false,
// numbers in JS notation (with -0), strings quoted, symbols as @name, objects as #name.
func RenderValue(v Value) string {
	switch v.K {
	case KUndefined:
		return "undefined"
	case KNull:
		return "null"
	case KBool:
		if v.B {
			return "true"
		}
		return "false"
	case KNumber:
		if v.N == 0 && 1/v.N < 0 {
			return "-0"
		}
		return NumberToString(v.N)
	case KString:
		return strings.ReplaceAll(strconv.Quote(v.S), " ", `\x20`) // (observations are split at spaces)
	case KSymbol:
		return "@" + v.Y.Name
	}
	if v.O == nil {
		return "#nil"
	}
	return "#" + v.O.Name
}

func RenderKey(k Key) string {
	if k.Sym != nil {
		return "@" + k.Sym.Name
	}
	return k.Str
}

func RenderKeys(ks []Key) string {
	var sb strings.Builder
	sb.WriteByte('[')
	for i, k := range ks {
		if i > 0 {
			sb.WriteByte(',')
		}
		sb.WriteString(RenderKey(k))
	}
	sb.WriteByte(']')
	return sb.String()
}

func bit(b bool) string {
	if b {
		return "1"
	}
	return "0"
}

// RenderProp renders FromPropertyDescriptor(prop): d(value,WEC) or a(get,set,EC).
func RenderProp(p Prop) string {
	if p.Accessor {
		return "a(" + RenderValue(p.Get) + "," + RenderValue(p.Set) + "," + bit(p.E) + bit(p.C) + ")"
	}
	return "d(" + RenderValue(p.Value) + "," + bit(p.W) + bit(p.E) + bit(p.C) + ")"
}

func protoName(o *Object) string {
	if o == nil {
		return "null"
	}
	return "#" + o.Name
}

// State is the observable state of one object: what every own-property reflection route must report.
type State struct {
	Ext            bool
	Proto          string
	Frozen, Sealed bool
	Keys           []string
	Props          map[string]string // rendered key -> rendered descriptor
}

// Snapshot computes the observable state through the internal methods.
func Snapshot(o *Object) State {
	s := State{Ext: o.IsExtensible(), Proto: protoName(o.GetPrototypeOf()), Props: map[string]string{}}
	s.Frozen = TestIntegrityLevel(o, true)
	s.Sealed = TestIntegrityLevel(o, false)
	for _, k := range o.OwnKeys() {
		rk := RenderKey(k)
		s.Keys = append(s.Keys, rk)
		if p, has := o.GetOwnProperty(k); has {
			s.Props[rk] = RenderProp(p)
		} else {
			s.Props[rk] = "none"
		}
	}
	return s
}
