package objmodel

import (
	"math"
	"sort"
)

// Desc is a Property Descriptor record in which every field may be absent.
type Desc struct {
	HasValue, HasGet, HasSet, HasW, HasE, HasC bool
	Value                                      Value
	Get, Set                                   Value // undefined or a callable object
	W, E, C                                    bool
}

func (d Desc) IsAccessor() bool { return d.HasGet || d.HasSet }
func (d Desc) IsData() bool     { return d.HasValue || d.HasW }
func (d Desc) IsGeneric() bool  { return !d.IsAccessor() && !d.IsData() }
func (d Desc) Empty() bool {
	return !(d.HasValue || d.HasGet || d.HasSet || d.HasW || d.HasE || d.HasC)
}

// Prop is a fully populated property (what [[GetOwnProperty]] returns).
type Prop struct {
	Accessor bool
	Value    Value
	Get, Set Value // undefined or object
	W, E, C  bool
}

func DataProp(v Value, w, e, c bool) Prop { return Prop{Value: v, W: w, E: e, C: c} }
func AccessorProp(get, set Value, e, c bool) Prop {
	return Prop{Accessor: true, Get: get, Set: set, E: e, C: c}
}

// ToDesc is the complete descriptor of an existing property.
func (p Prop) ToDesc() Desc {
	if p.Accessor {
		return Desc{HasGet: true, HasSet: true, HasE: true, HasC: true, Get: p.Get, Set: p.Set, E: p.E, C: p.C}
	}
	return Desc{HasValue: true, HasW: true, HasE: true, HasC: true, Value: p.Value, W: p.W, E: p.E, C: p.C}
}

type Class uint8

const (
	ClassOrdinary Class = iota
	ClassArray
	ClassString
	ClassArguments // mapped arguments object; unmapped ones are ordinary
	ClassTypedArray
)

// ElemType is a typed-array element type.
type ElemType uint8

const (
	ElemUint8 ElemType = iota
	ElemInt8
	ElemUint8Clamped
	ElemFloat64
)

// Binding is one formal parameter binding a mapped arguments object aliases.
type Binding struct{ V Value }

type entry struct {
	k Key
	p Prop
}

// Object is an ECMAScript object. Properties are kept in creation order.
type Object struct {
	Name  string // used when rendering values
	Class Class
	Proto *Object
	Ext   bool
	props []entry

	// Call makes the object callable (getter / setter functions of the checks).
	Call func(this Value, args []Value) (Value, *Throw)

	StringData []uint16            // ClassString
	ParamMap   map[string]*Binding // ClassArguments: index key -> aliased binding
	Elem       ElemType            // ClassTypedArray
	Data       []float64           // ClassTypedArray elements (already converted to the element type)
	Detached   bool                // ClassTypedArray: buffer detached / out of bounds
}

func NewObject(name string, proto *Object) *Object {
	return &Object{Name: name, Proto: proto, Ext: true}
}

func (o *Object) find(k Key) int {
	for i := range o.props {
		if o.props[i].k == k {
			return i
		}
	}
	return -1
}

// Put creates or overwrites a property without any validation (used to build initial states).
func (o *Object) Put(k Key, p Prop) {
	if i := o.find(k); i >= 0 {
		o.props[i].p = p
		return
	}
	o.props = append(o.props, entry{k, p})
}

// Reorder changes the creation order of the existing properties to the given order (keys that are not
// listed keep their relative order after the listed ones). It exists so that a check can continue after
// reporting that a fresh object lists its keys in a different order than the specification.
func (o *Object) Reorder(order []Key) {
	var res []entry
	used := map[Key]bool{}
	for _, k := range order {
		if i := o.find(k); i >= 0 && !used[k] {
			res = append(res, o.props[i])
			used[k] = true
		}
	}
	for _, e := range o.props {
		if !used[e.k] {
			res = append(res, e)
		}
	}
	o.props = res
}

func (o *Object) remove(k Key) {
	if i := o.find(k); i >= 0 {
		o.props = append(o.props[:i:i], o.props[i+1:]...)
	}
}

// ---------------------------------------------------------------- ordinary internal methods (§10.1)

func (o *Object) ordinaryGetOwnProperty(k Key) (Prop, bool) {
	if i := o.find(k); i >= 0 {
		return o.props[i].p, true
	}
	return Prop{}, false
}

// ValidateAndApply is ValidateAndApplyPropertyDescriptor(O, P, extensible, Desc, current) (§10.1.6.3).
// o == nil means O is undefined (validation only).
func ValidateAndApply(o *Object, k Key, extensible bool, d Desc, current Prop, has bool) bool {
	if !has {
		if !extensible {
			return false
		}
		if o == nil {
			return true
		}
		if d.IsAccessor() {
			p := Prop{Accessor: true, Get: Undefined, Set: Undefined}
			if d.HasGet {
				p.Get = d.Get
			}
			if d.HasSet {
				p.Set = d.Set
			}
			p.E = d.HasE && d.E
			p.C = d.HasC && d.C
			o.props = append(o.props, entry{k, p})
		} else {
			p := Prop{Value: Undefined}
			if d.HasValue {
				p.Value = d.Value
			}
			p.W = d.HasW && d.W
			p.E = d.HasE && d.E
			p.C = d.HasC && d.C
			o.props = append(o.props, entry{k, p})
		}
		return true
	}
	if d.Empty() {
		return true
	}
	if !current.C {
		if d.HasC && d.C {
			return false
		}
		if d.HasE && d.E != current.E {
			return false
		}
		if !d.IsGeneric() && d.IsAccessor() != current.Accessor {
			return false
		}
		if current.Accessor {
			if d.HasGet && !SameValue(d.Get, current.Get) {
				return false
			}
			if d.HasSet && !SameValue(d.Set, current.Set) {
				return false
			}
		} else if !current.W {
			if d.HasW && d.W {
				return false
			}
			if d.HasValue && !SameValue(d.Value, current.Value) {
				return false
			}
		}
	}
	if o != nil {
		i := o.find(k)
		p := current
		switch {
		case !current.Accessor && d.IsAccessor():
			p = Prop{Accessor: true, Get: Undefined, Set: Undefined, E: current.E, C: current.C}
			if d.HasC {
				p.C = d.C
			}
			if d.HasE {
				p.E = d.E
			}
			if d.HasGet {
				p.Get = d.Get
			}
			if d.HasSet {
				p.Set = d.Set
			}
		case current.Accessor && d.IsData():
			p = Prop{Value: Undefined, E: current.E, C: current.C}
			if d.HasC {
				p.C = d.C
			}
			if d.HasE {
				p.E = d.E
			}
			if d.HasValue {
				p.Value = d.Value
			}
			if d.HasW {
				p.W = d.W
			}
		default:
			if d.HasValue {
				p.Value = d.Value
			}
			if d.HasW {
				p.W = d.W
			}
			if d.HasGet {
				p.Get = d.Get
			}
			if d.HasSet {
				p.Set = d.Set
			}
			if d.HasE {
				p.E = d.E
			}
			if d.HasC {
				p.C = d.C
			}
		}
		o.props[i].p = p
	}
	return true
}

func (o *Object) ordinaryDefineOwnProperty(k Key, d Desc) bool {
	cur, has := o.GetOwnProperty(k)
	return ValidateAndApply(o, k, o.Ext, d, cur, has)
}

// ordinaryDefineOwnPropertyRaw uses OrdinaryGetOwnProperty for `current` (the Array / arguments algorithms
// call OrdinaryDefineOwnProperty, whose `current` is O.[[GetOwnProperty]](P); for those classes this differs
// only for mapped arguments, where the spec reads the mapped value — we keep O.[[GetOwnProperty]]).
func (o *Object) ordinaryHasProperty(k Key) bool {
	if _, has := o.GetOwnProperty(k); has {
		return true
	}
	if o.Proto != nil {
		return o.Proto.HasProperty(k)
	}
	return false
}

func (o *Object) ordinaryGet(k Key, receiver Value) (Value, *Throw) {
	p, has := o.GetOwnProperty(k)
	if !has {
		if o.Proto == nil {
			return Undefined, nil
		}
		return o.Proto.Get(k, receiver)
	}
	if !p.Accessor {
		return p.Value, nil
	}
	if p.Get.IsUndef() {
		return Undefined, nil
	}
	return p.Get.O.Call(receiver, nil)
}

func (o *Object) ordinarySet(k Key, v Value, receiver Value) (bool, *Throw) {
	own, has := o.GetOwnProperty(k)
	return o.ordinarySetWithOwnDescriptor(k, v, receiver, own, has)
}

func (o *Object) ordinarySetWithOwnDescriptor(k Key, v Value, receiver Value, own Prop, has bool) (bool, *Throw) {
	if !has {
		if o.Proto != nil {
			return o.Proto.Set(k, v, receiver)
		}
		own = Prop{Value: Undefined, W: true, E: true, C: true}
	}
	if !own.Accessor {
		if !own.W {
			return false, nil
		}
		if !receiver.IsObject() {
			return false, nil
		}
		r := receiver.O
		ex, exHas := r.GetOwnProperty(k)
		if exHas {
			if ex.Accessor {
				return false, nil
			}
			if !ex.W {
				return false, nil
			}
			return r.DefineOwnProperty(k, Desc{HasValue: true, Value: v})
		}
		return r.DefineOwnProperty(k, Desc{HasValue: true, Value: v, HasW: true, W: true, HasE: true, E: true, HasC: true, C: true})
	}
	if own.Set.IsUndef() {
		return false, nil
	}
	if _, th := own.Set.O.Call(receiver, []Value{v}); th != nil {
		return false, th
	}
	return true, nil
}

func (o *Object) ordinaryDelete(k Key) bool {
	p, has := o.GetOwnProperty(k)
	if !has {
		return true
	}
	if p.C {
		o.remove(k)
		return true
	}
	return false
}

// ordinaryOwnKeys is OrdinaryOwnPropertyKeys: array indices ascending, then strings and then symbols in
// creation order.
func (o *Object) ordinaryOwnKeys() []Key {
	var idx []Key
	var strs, syms []Key
	for _, e := range o.props {
		switch {
		case e.k.Sym != nil:
			syms = append(syms, e.k)
		default:
			if _, ok := e.k.ArrayIndex(); ok {
				idx = append(idx, e.k)
			} else {
				strs = append(strs, e.k)
			}
		}
	}
	sort.SliceStable(idx, func(i, j int) bool {
		a, _ := idx[i].ArrayIndex()
		b, _ := idx[j].ArrayIndex()
		return a < b
	})
	return append(append(idx, strs...), syms...)
}

// ---------------------------------------------------------------- dispatching internal methods

func (o *Object) GetPrototypeOf() *Object { return o.Proto }

// SetPrototypeOf is OrdinarySetPrototypeOf.
func (o *Object) SetPrototypeOf(p *Object) bool {
	if p == o.Proto {
		return true
	}
	if !o.Ext {
		return false
	}
	for q := p; q != nil; q = q.Proto {
		if q == o {
			return false
		}
	}
	o.Proto = p
	return true
}

func (o *Object) IsExtensible() bool { return o.Ext }

// PreventExtensions: ordinary, except that a typed array whose length is not fixed refuses (not modelled:
// all model typed arrays are fixed-length).
func (o *Object) PreventExtensions() bool { o.Ext = false; return true }

func (o *Object) GetOwnProperty(k Key) (Prop, bool) {
	switch o.Class {
	case ClassString:
		if p, has := o.ordinaryGetOwnProperty(k); has {
			return p, true
		}
		return o.stringGetOwnProperty(k)
	case ClassArguments:
		p, has := o.ordinaryGetOwnProperty(k)
		if !has {
			return p, false
		}
		if b := o.mapped(k); b != nil {
			p.Value = b.V
		}
		return p, true
	case ClassTypedArray:
		if n, ok := k.CanonicalNumericIndex(); ok {
			if !o.validIntegerIndex(n) {
				return Prop{}, false
			}
			return Prop{Value: Num(o.Data[int(n)]), W: true, E: true, C: true}, true
		}
	}
	return o.ordinaryGetOwnProperty(k)
}

func (o *Object) DefineOwnProperty(k Key, d Desc) (bool, *Throw) {
	switch o.Class {
	case ClassArray:
		return o.arrayDefineOwnProperty(k, d)
	case ClassString:
		if sp, has := o.stringGetOwnProperty(k); has {
			return ValidateAndApply(nil, k, o.Ext, d, sp, true), nil
		}
	case ClassArguments:
		return o.argumentsDefineOwnProperty(k, d), nil
	case ClassTypedArray:
		if n, ok := k.CanonicalNumericIndex(); ok {
			if !o.validIntegerIndex(n) {
				return false, nil
			}
			if d.HasC && !d.C {
				return false, nil
			}
			if d.HasE && !d.E {
				return false, nil
			}
			if d.IsAccessor() {
				return false, nil
			}
			if d.HasW && !d.W {
				return false, nil
			}
			if d.HasValue {
				if th := o.typedArraySetElement(n, d.Value); th != nil {
					return false, th
				}
			}
			return true, nil
		}
	}
	return o.ordinaryDefineOwnProperty(k, d), nil
}

func (o *Object) HasProperty(k Key) bool {
	if o.Class == ClassTypedArray {
		if n, ok := k.CanonicalNumericIndex(); ok {
			return o.validIntegerIndex(n)
		}
	}
	return o.ordinaryHasProperty(k)
}

func (o *Object) Get(k Key, receiver Value) (Value, *Throw) {
	switch o.Class {
	case ClassArguments:
		if b := o.mapped(k); b != nil {
			return b.V, nil
		}
	case ClassTypedArray:
		if n, ok := k.CanonicalNumericIndex(); ok {
			if !o.validIntegerIndex(n) {
				return Undefined, nil
			}
			return Num(o.Data[int(n)]), nil
		}
	}
	return o.ordinaryGet(k, receiver)
}

func (o *Object) Set(k Key, v Value, receiver Value) (bool, *Throw) {
	switch o.Class {
	case ClassArguments:
		if receiver.K == KObject && receiver.O == o {
			if b := o.mapped(k); b != nil {
				b.V = v // Set(map, P, V) always succeeds
			}
		}
	case ClassTypedArray:
		if n, ok := k.CanonicalNumericIndex(); ok {
			if receiver.K == KObject && receiver.O == o {
				if th := o.typedArraySetElement(n, v); th != nil {
					return false, th
				}
				return true, nil
			}
			if !o.validIntegerIndex(n) {
				return true, nil
			}
		}
	}
	return o.ordinarySet(k, v, receiver)
}

func (o *Object) Delete(k Key) bool {
	switch o.Class {
	case ClassArguments:
		b := o.mapped(k)
		res := o.ordinaryDelete(k)
		if res && b != nil {
			delete(o.ParamMap, k.Str)
		}
		return res
	case ClassTypedArray:
		if n, ok := k.CanonicalNumericIndex(); ok {
			return !o.validIntegerIndex(n)
		}
	}
	return o.ordinaryDelete(k)
}

func (o *Object) OwnKeys() []Key {
	switch o.Class {
	case ClassString:
		// string indices, then other array-index keys ascending, then strings, then symbols
		var keys []Key
		for i := range o.StringData {
			keys = append(keys, StrKey(NumberToString(float64(i))))
		}
		return append(keys, o.ordinaryOwnKeys()...)
	case ClassTypedArray:
		var keys []Key
		if !o.Detached {
			for i := range o.Data {
				keys = append(keys, StrKey(NumberToString(float64(i))))
			}
		}
		return append(keys, o.ordinaryOwnKeys()...)
	}
	return o.ordinaryOwnKeys()
}

// ---------------------------------------------------------------- Array exotic (§10.4.2)

// NewArray is ArrayCreate(0, proto) followed by CreateDataProperty for every element.
func NewArray(name string, proto *Object, elems ...Value) *Object {
	a := &Object{Name: name, Class: ClassArray, Proto: proto, Ext: true}
	a.props = append(a.props, entry{StrKey("length"), Prop{Value: Num(0), W: true}})
	for i, v := range elems {
		a.DefineOwnProperty(StrKey(NumberToString(float64(i))), Desc{HasValue: true, Value: v, HasW: true, W: true, HasE: true, E: true, HasC: true, C: true})
	}
	return a
}

func (o *Object) arrayDefineOwnProperty(k Key, d Desc) (bool, *Throw) {
	if k.Sym == nil && k.Str == "length" {
		return o.arraySetLength(d)
	}
	if index, ok := k.ArrayIndex(); ok {
		lenDesc, _ := o.ordinaryGetOwnProperty(StrKey("length"))
		length := uint32(lenDesc.Value.N)
		if index >= length && !lenDesc.W {
			return false, nil
		}
		if !o.ordinaryDefineOwnProperty(k, d) {
			return false, nil
		}
		if index >= length {
			lenDesc.Value = Num(float64(index) + 1)
			o.Put(StrKey("length"), lenDesc)
		}
		return true, nil
	}
	return o.ordinaryDefineOwnProperty(k, d), nil
}

func (o *Object) arraySetLength(d Desc) (bool, *Throw) {
	lk := StrKey("length")
	if !d.HasValue {
		return o.ordinaryDefineOwnProperty(lk, d), nil
	}
	newLenDesc := d
	numberLen, th := ToNumber(d.Value)
	if th != nil {
		return false, th
	}
	newLen := ToUint32(numberLen)
	if float64(newLen) != numberLen {
		return false, RangeError()
	}
	newLenDesc.Value = Num(float64(newLen))
	oldLenDesc, _ := o.ordinaryGetOwnProperty(lk)
	oldLen := uint32(oldLenDesc.Value.N)
	if newLen >= oldLen {
		return o.ordinaryDefineOwnProperty(lk, newLenDesc), nil
	}
	if !oldLenDesc.W {
		return false, nil
	}
	newWritable := true
	if newLenDesc.HasW && !newLenDesc.W {
		newWritable = false
		newLenDesc.W = true
	}
	if !o.ordinaryDefineOwnProperty(lk, newLenDesc) {
		return false, nil
	}
	// own array-index keys >= newLen in descending order
	var idx []uint32
	for _, e := range o.props {
		if i, ok := e.k.ArrayIndex(); ok && i >= newLen {
			idx = append(idx, i)
		}
	}
	sort.Slice(idx, func(i, j int) bool { return idx[i] > idx[j] })
	for _, i := range idx {
		if !o.Delete(StrKey(NumberToString(float64(i)))) {
			newLenDesc.Value = Num(float64(i) + 1)
			if !newWritable {
				newLenDesc.W = false
			}
			o.ordinaryDefineOwnProperty(lk, newLenDesc)
			return false, nil
		}
	}
	if !newWritable {
		o.ordinaryDefineOwnProperty(lk, Desc{HasW: true, W: false})
	}
	return true, nil
}

// ---------------------------------------------------------------- String exotic (§10.4.3)

// NewStringObject is StringCreate.
func NewStringObject(name string, proto *Object, s string) *Object {
	o := &Object{Name: name, Class: ClassString, Proto: proto, Ext: true}
	for _, c := range s { // the checks only use BMP characters
		o.StringData = append(o.StringData, uint16(c))
	}
	o.props = append(o.props, entry{StrKey("length"), Prop{Value: Num(float64(len(o.StringData)))}})
	return o
}

func (o *Object) stringGetOwnProperty(k Key) (Prop, bool) {
	n, ok := k.CanonicalNumericIndex()
	if !ok {
		return Prop{}, false
	}
	if n != math.Trunc(n) || math.IsInf(n, 0) || (n == 0 && math.Signbit(n)) {
		return Prop{}, false
	}
	if n < 0 || n >= float64(len(o.StringData)) {
		return Prop{}, false
	}
	return Prop{Value: Str(string(rune(o.StringData[int(n)]))), W: false, E: true, C: false}, true
}

// ---------------------------------------------------------------- arguments exotic (§10.4.4)

// NewMappedArguments is CreateMappedArgumentsObject for a function whose formals alias args[i] for
// i < len(bindings).
func NewMappedArguments(name string, proto *Object, args []Value, bindings []*Binding, callee *Object, iterator *Object, symIterator *Symbol) *Object {
	o := &Object{Name: name, Class: ClassArguments, Proto: proto, Ext: true, ParamMap: map[string]*Binding{}}
	// spec order: length, indices..., @@iterator, callee  (CreateMappedArgumentsObject steps 16-22:
	// indices are created first (step 14), then length (16); OrdinaryOwnPropertyKeys sorts indices first anyway)
	for i, v := range args {
		o.props = append(o.props, entry{StrKey(NumberToString(float64(i))), Prop{Value: v, W: true, E: true, C: true}})
	}
	o.props = append(o.props, entry{StrKey("length"), Prop{Value: Num(float64(len(args))), W: true, C: true}})
	for i, b := range bindings {
		if i < len(args) && b != nil {
			b.V = args[i]
			o.ParamMap[NumberToString(float64(i))] = b
		}
	}
	if symIterator != nil {
		o.props = append(o.props, entry{SymKey(symIterator), Prop{Value: ObjV(iterator), W: true, C: true}})
	}
	if callee != nil {
		o.props = append(o.props, entry{StrKey("callee"), Prop{Value: ObjV(callee), W: true, C: true}})
	}
	return o
}

func (o *Object) mapped(k Key) *Binding {
	if k.Sym != nil || o.ParamMap == nil {
		return nil
	}
	return o.ParamMap[k.Str]
}

func (o *Object) argumentsDefineOwnProperty(k Key, d Desc) bool {
	b := o.mapped(k)
	newArgDesc := d
	if b != nil && d.IsData() {
		if !d.HasValue && d.HasW && !d.W {
			newArgDesc.HasValue = true
			newArgDesc.Value = b.V
		}
	}
	// OrdinaryDefineOwnProperty: current = args.[[GetOwnProperty]](P) (the mapped value)
	if !o.ordinaryDefineOwnProperty(k, newArgDesc) {
		return false
	}
	if b != nil {
		if d.IsAccessor() {
			delete(o.ParamMap, k.Str)
		} else {
			if d.HasValue {
				b.V = d.Value
			}
			if d.HasW && !d.W {
				delete(o.ParamMap, k.Str)
			}
		}
	}
	return true
}

// ---------------------------------------------------------------- TypedArray exotic (§10.4.5)

func NewTypedArray(name string, proto *Object, et ElemType, n int) *Object {
	return &Object{Name: name, Class: ClassTypedArray, Proto: proto, Ext: true, Elem: et, Data: make([]float64, n)}
}

func (o *Object) validIntegerIndex(n float64) bool {
	if o.Detached {
		return false
	}
	if n != math.Trunc(n) || math.IsInf(n, 0) || math.IsNaN(n) {
		return false
	}
	if n == 0 && math.Signbit(n) {
		return false
	}
	return n >= 0 && n < float64(len(o.Data))
}

func (o *Object) typedArraySetElement(n float64, v Value) *Throw {
	num, th := ToNumber(v)
	if th != nil {
		return th
	}
	if o.validIntegerIndex(n) {
		o.Data[int(n)] = convertElem(o.Elem, num)
	}
	return nil
}

func convertElem(et ElemType, n float64) float64 {
	switch et {
	case ElemUint8:
		return float64(uint8(ToUint32(n)))
	case ElemInt8:
		return float64(int8(uint8(ToUint32(n))))
	case ElemUint8Clamped:
		if math.IsNaN(n) || n <= 0 {
			return 0
		}
		if n >= 255 {
			return 255
		}
		f := math.Floor(n)
		if f+0.5 < n {
			return f + 1
		}
		if n < f+0.5 {
			return f
		}
		if math.Mod(f, 2) == 0 {
			return f
		}
		return f + 1
	}
	return n
}
