package genmodel

// Generator objects (ECMA-262 27.5) as coroutines, yield* (14.4.14), async activations and Await (27.7.5.3)
// over a small promise / job-queue model (27.2, 9.5).

// ---- coroutines ----

const (
	rNext = iota
	rThrow
	rReturn
	rKill
)

type resum struct {
	kind int
	v    Value
}

const (
	oYield = iota
	oAwait
	oDone
	oThrow
	oDead
	oPanic
)

type cout struct {
	kind int
	v    Value
	pan  interface{}
}

type killed struct{}

type coro struct {
	in      chan resum
	out     chan cout
	started bool
	dead    bool
	run     func(first resum) comp
}

func (in *Interp) newCoro(run func(first resum) comp) *coro {
	co := &coro{in: make(chan resum), out: make(chan cout), run: run}
	in.coros = append(in.coros, co)
	return co
}

// resume transfers control to the coroutine and blocks until it yields, awaits or ends.
func (co *coro) resume(r resum) cout {
	if co.dead {
		panic("genmodel: resume of a dead coroutine")
	}
	if !co.started {
		co.started = true
		go func() {
			first := <-co.in
			var res cout
			func() {
				defer func() {
					if x := recover(); x != nil {
						if _, ok := x.(killed); ok {
							res = cout{kind: oDead}
						} else {
							res = cout{kind: oPanic, pan: x}
						}
					}
				}()
				if first.kind == rKill {
					panic(killed{})
				}
				c := co.run(first)
				switch c.t {
				case cThrow:
					res = cout{kind: oThrow, v: c.v}
				case cReturn:
					res = cout{kind: oDone, v: c.v}
				case cNormal:
					res = cout{kind: oDone}
				default:
					panic(Unsupported{"break/continue escaped a function body"})
				}
			}()
			co.dead = true
			co.out <- res
		}()
	}
	co.in <- r
	o := <-co.out
	if o.kind == oPanic {
		panic(o.pan)
	}
	return o
}

// suspend is called on the coroutine's own goroutine: hand a value out and wait for the next resumption.
func (co *coro) suspend(o cout) resum {
	co.out <- o
	r := <-co.in
	if r.kind == rKill {
		panic(killed{})
	}
	return r
}

// Close ends all coroutines that are still suspended (they never run any model code again).
func (in *Interp) Close() {
	for _, co := range in.coros {
		if co.started && !co.dead {
			co.in <- resum{kind: rKill}
			<-co.out
		}
	}
	in.coros = nil
}

// ---- generator objects ----

const (
	gSuspendedStart = iota
	gSuspendedYield
	gExecuting
	gCompleted
)

type GenV struct {
	state int
	co    *coro
	at    *N // the yield / yield* node the generator is suspended at
}

// newGen creates a generator object whose body is the statement list body evaluated in env.
func (in *Interp) newGen(body []*N, env *scope) *GenV {
	g := &GenV{state: gSuspendedStart}
	fr := &frame{gen: g, env: env}
	g.co = in.newCoro(func(first resum) comp {
		// GeneratorStart: the first resumption value is ignored
		return in.execList(fr, env, body)
	})
	fr.co = g.co
	return g
}

func (in *Interp) newLibGen(i int, _ bool) Value {
	return in.newGen(Inner(i), in.newFuncScope(nil, nil, false))
}

func (in *Interp) genValidate(this Value) *GenV {
	g, ok := this.(*GenV)
	if !ok {
		in.typeError("not a generator")
	}
	if g.state == gExecuting {
		in.typeError("generator is already running")
	}
	return g
}

func (in *Interp) genHandle(g *GenV, o cout) Value {
	switch o.kind {
	case oYield:
		g.state = gSuspendedYield
		return o.v
	case oDone:
		g.state = gCompleted
		return in.iterResult(o.v, true)
	case oThrow:
		g.state = gCompleted
		in.throwV(o.v)
	}
	panic("genmodel: unexpected coroutine output")
}

// genResume implements GeneratorResume.
func (in *Interp) genResume(this Value, v Value) Value {
	g := in.genValidate(this)
	if g.state == gCompleted {
		return in.iterResult(nil, true)
	}
	g.state = gExecuting
	return in.genHandle(g, g.co.resume(resum{kind: rNext, v: v}))
}

// genResumeAbrupt implements GeneratorResumeAbrupt for a throw (cThrow) or return (cReturn) completion.
func (in *Interp) genResumeAbrupt(this Value, t int, v Value) Value {
	g := in.genValidate(this)
	if g.state == gSuspendedStart {
		g.state = gCompleted
	}
	if g.state == gCompleted {
		if t == cReturn {
			return in.iterResult(v, true)
		}
		in.throwV(v)
	}
	g.state = gExecuting
	k := rThrow
	if t == cReturn {
		k = rReturn
	}
	return in.genHandle(g, g.co.resume(resum{kind: k, v: v}))
}

// genYieldRaw implements GeneratorYield(iterNextObj) and hands back the resumption as is.
func (in *Interp) genYieldRaw(fr *frame, res Value) resum {
	return fr.co.suspend(cout{kind: oYield, v: res})
}

// genYield is the evaluation of a plain yield: Yield(value) for a sync generator.
func (in *Interp) genYield(fr *frame, res Value) Value {
	r := in.genYieldRaw(fr, res)
	switch r.kind {
	case rThrow:
		in.throwV(r.v)
	case rReturn:
		panic(&abrupt{cReturn, r.v})
	}
	return r.v
}

// yieldStar implements the evaluation of `yield* v` (14.4.14) for a sync generator.
func (in *Interp) yieldStar(fr *frame, v Value) Value {
	r := in.getIterator(v)
	recv := resum{kind: rNext}
	for {
		in.tick()
		var inner Value
		switch recv.kind {
		case rNext:
			if r.next == nil {
				in.typeError("next is not callable")
			}
			inner = r.next.Call(r.iter, []Value{recv.v})
			if !isObject(inner) {
				in.typeError("iterator result is not an object")
			}
			if toBool(in.getProp(inner, "done")) {
				return in.getProp(inner, "value")
			}
		case rThrow:
			th := in.getMethod(r.iter, "throw")
			if th != nil {
				inner = th.Call(r.iter, []Value{recv.v})
				if !isObject(inner) {
					in.typeError("iterator result is not an object")
				}
				if toBool(in.getProp(inner, "done")) {
					return in.getProp(inner, "value")
				}
			} else {
				if c := in.iterClose(r, comp{}); c.t != cNormal {
					panic(&abrupt{c.t, c.v})
				}
				in.typeError("the iterator does not provide a throw method")
			}
		case rReturn:
			rt := in.getMethod(r.iter, "return")
			if rt == nil {
				panic(&abrupt{cReturn, recv.v})
			}
			inner = rt.Call(r.iter, []Value{recv.v})
			if !isObject(inner) {
				in.typeError("iterator result is not an object")
			}
			if toBool(in.getProp(inner, "done")) {
				panic(&abrupt{cReturn, in.getProp(inner, "value")})
			}
		}
		recv = in.genYieldRaw(fr, inner)
	}
}

// ---- promises and jobs ----

const (
	pPending = iota
	pFulfilled
	pRejected
)

type reaction struct{ onFul, onRej func(Value) }

type PromV struct {
	state  int
	val    Value
	reacts []reaction
}

func (in *Interp) enqueue(j func()) { in.jobs = append(in.jobs, j) }

func (in *Interp) settleProm(p *PromV, state int, v Value) {
	if p.state != pPending {
		return
	}
	p.state, p.val = state, v
	for _, r := range p.reacts {
		r := r
		if state == pFulfilled {
			in.enqueue(func() { r.onFul(v) })
		} else {
			in.enqueue(func() { r.onRej(v) })
		}
	}
	p.reacts = nil
}

// resolveProm is a promise resolve function (27.2.1.3.2); only model promises are thenables here.
func (in *Interp) resolveProm(p *PromV, v Value) {
	if q, ok := v.(*PromV); ok {
		if q == p {
			in.settleProm(p, pRejected, &ErrV{"TypeError"})
			return
		}
		// NewPromiseResolveThenableJob
		in.enqueue(func() {
			in.then(q, func(x Value) { in.resolveProm(p, x) }, func(e Value) { in.settleProm(p, pRejected, e) })
		})
		return
	}
	if o, ok := v.(*ObjV); ok && o.has("then") {
		unsupported("thenable object")
	}
	in.settleProm(p, pFulfilled, v)
}

// then is PerformPromiseThen with handlers that take care of their own derived capability.
func (in *Interp) then(p *PromV, onFul, onRej func(Value)) {
	switch p.state {
	case pPending:
		p.reacts = append(p.reacts, reaction{onFul, onRej})
	case pFulfilled:
		v := p.val
		in.enqueue(func() { onFul(v) })
	default:
		v := p.val
		in.enqueue(func() { onRej(v) })
	}
}

// thenLog is p.then(v => log(prefixF + str(v)), e => log(prefixR + str(e))) and returns the derived promise.
func (in *Interp) thenLog(p *PromV, fPrefix, rPrefix string, withValue bool) *PromV {
	d := &PromV{}
	in.then(p, func(v Value) {
		if withValue {
			in.log(fPrefix + Repr(v))
		} else {
			in.log(fPrefix)
		}
		in.resolveProm(d, nil)
	}, func(e Value) {
		if rPrefix == "" { // no rejection handler: pass through
			in.settleProm(d, pRejected, e)
			return
		}
		in.log(rPrefix + Repr(e))
		in.resolveProm(d, nil)
	})
	return d
}

// ticks is the prelude's ticks(): a chain of four reactions that make the job ticks observable.
func (in *Interp) ticks() {
	p := &PromV{state: pFulfilled}
	for _, t := range []string{"t1", "t2", "t3", "t4"} {
		p = in.thenLog(p, t, "", false)
	}
}

// Drain runs the job queue to exhaustion in FIFO order (what the host does when script execution returns).
func (in *Interp) Drain() {
	for len(in.jobs) > 0 {
		in.tick()
		j := in.jobs[0]
		in.jobs = in.jobs[1:]
		j()
	}
}

// ---- async activations ----

type asyncAct struct {
	co   *coro
	prom *PromV
}

// asyncStart implements AsyncFunctionStart: runs body until the first await and returns the result promise.
func (in *Interp) asyncStart(body []*N, env *scope) *PromV {
	act := &asyncAct{prom: &PromV{}}
	fr := &frame{env: env}
	act.co = in.newCoro(func(first resum) comp { return in.execList(fr, env, body) })
	fr.co = act.co
	in.asyncStep(act, resum{kind: rNext})
	return act.prom
}

func (in *Interp) asyncStep(act *asyncAct, r resum) {
	o := act.co.resume(r)
	switch o.kind {
	case oAwait:
		// Await(v): promise = PromiseResolve(%Promise%, v); PerformPromiseThen(promise, onFulfilled, onRejected)
		p, ok := o.v.(*PromV)
		if !ok {
			p = &PromV{}
			in.resolveProm(p, o.v)
		}
		in.then(p, func(v Value) { in.asyncStep(act, resum{kind: rNext, v: v}) },
			func(e Value) { in.asyncStep(act, resum{kind: rThrow, v: e}) })
	case oDone:
		in.resolveProm(act.prom, o.v)
	case oThrow:
		in.settleProm(act.prom, pRejected, o.v)
	default:
		panic("genmodel: unexpected coroutine output in async activation")
	}
}

func (in *Interp) await(fr *frame, v Value) Value {
	if fr.gen != nil {
		unsupported("await inside a generator")
	}
	r := fr.co.suspend(cout{kind: oAwait, v: v})
	if r.kind == rThrow {
		in.throwV(r.v)
	}
	return r.v
}

// df is the prelude's df(v): the numbers 1..3 name deferred promises, every other value is itself.
func (in *Interp) df(v Value) Value {
	if n, ok := v.(float64); ok && n >= 1 && n <= 3 {
		return in.deferred(int(n))
	}
	return v
}

func (in *Interp) deferred(k int) *PromV {
	if in.dfd == nil {
		in.dfd = map[int]*PromV{}
	}
	if in.dfd[k] == nil {
		in.dfd[k] = &PromV{}
	}
	return in.dfd[k]
}

// ---- machines: what the harness drives in lock-step with the engine ----

// Machine is one model instance executing one history against one program.
type Machine struct {
	In   *Interp
	prog *Program
	mark int
}

// Ops of a generator history.
const (
	OpNext   = 0
	OpThrow  = 1
	OpReturn = 2
)

var OpNames = []string{"next", "throw", "return"}

// NewGenMachine models `start()`: self = G(7, 8).
func NewGenMachine(p *Program) *Machine {
	in := NewInterp()
	in.self = in.newGen(p.Body, in.newFuncScope(7.0, 8.0, true))
	return &Machine{In: in, prog: p}
}

func (m *Machine) delta() []string {
	d := m.In.Log[m.mark:]
	m.mark = len(m.In.Log)
	return d
}

// protect converts an Unsupported panic into an error value.
func protect(f func()) (err *Unsupported) {
	defer func() {
		if x := recover(); x != nil {
			if u, ok := x.(Unsupported); ok {
				err = &u
				return
			}
			panic(x)
		}
	}()
	f()
	return
}

// Step models step(ctx, op, v): the rendering of the result (or "!" + the thrown value) and the log lines.
func (m *Machine) Step(op int, v Value) (res string, log []string, err *Unsupported) {
	err = protect(func() {
		var r Value
		c := try(func() {
			switch op {
			case OpNext:
				r = m.In.genResume(m.In.self, v)
			case OpThrow:
				r = m.In.genResumeAbrupt(m.In.self, cThrow, v)
			default:
				r = m.In.genResumeAbrupt(m.In.self, cReturn, v)
			}
		})
		if c.t == cThrow {
			res = "!" + Repr(c.v)
		} else {
			res = Repr(r)
		}
	})
	return res, m.delta(), err
}

// Where describes the state the next driver call lands in: "start", "completed", or the syntactic position
// of the yield the generator is suspended at (see Program.Where).
func (m *Machine) Where() string {
	g := m.In.self
	switch {
	case g == nil:
		return "?"
	case g.state == gSuspendedStart:
		return "start"
	case g.state == gCompleted:
		return "completed"
	case g.at == nil:
		return "?"
	}
	return m.prog.Where(g.at)
}

// Done reports whether the generator has completed.
func (m *Machine) Done() bool { return m.In.self != nil && m.In.self.state == gCompleted }

func (m *Machine) Close() { m.In.Close() }

// NewAsyncMachine prepares the async rendering of p.
func NewAsyncMachine(p *Program) *Machine {
	return &Machine{In: NewInterp(), prog: p}
}

// Start models astart(): call G(7, 8), attach the result loggers, queue the tick chain, drain.
func (m *Machine) Start() (log []string, err *Unsupported) {
	in := m.In
	err = protect(func() {
		pr := in.asyncStart(m.prog.Body, in.newFuncScope(7.0, 8.0, true))
		in.log("started:" + Repr(pr))
		in.thenLog(pr, "F:", "R:", true)
		in.ticks()
		in.Drain()
	})
	return m.delta(), err
}

// Settle models settle(k, rej, v) followed by the drain of the job queue; with drain=false the jobs stay
// queued (batch mode: several settle() calls inside one script run).
func (m *Machine) Settle(k int, rej bool, v Value, drain bool) (log []string, err *Unsupported) {
	in := m.In
	err = protect(func() {
		d := in.deferred(k)
		if rej {
			in.settleProm(d, pRejected, v)
		} else {
			in.resolveProm(d, v)
		}
		in.ticks()
		if drain {
			in.Drain()
		}
	})
	return m.delta(), err
}

// DrainNow models the end of a batch.
func (m *Machine) DrainNow() (log []string, err *Unsupported) {
	err = protect(func() { m.In.Drain() })
	return m.delta(), err
}
