package genmodel

import (
	"fmt"
	"math"
	"sort"
	"strconv"
	"strings"
)

// ---- values ----

// Value is a JavaScript value of the model: nil (undefined), Null, float64, string, bool, *ArrV, *ObjV,
// *FuncV, *ErrV, *GenV, *PromV.
type Value interface{}

type nullT struct{}

var Null = nullT{}

type ArrV struct{ El []Value }

type ObjV struct {
	keys   []string
	m      map[string]Value
	iterFn *FuncV // the [Symbol.iterator] method, if any
}

type FuncV struct {
	Name string
	Call func(this Value, args []Value) Value
}

type ErrV struct{ Name string }

func newObj() *ObjV { return &ObjV{m: map[string]Value{}} }

func (o *ObjV) get(k string) Value { return o.m[k] }
func (o *ObjV) has(k string) bool  { _, ok := o.m[k]; return ok }
func (o *ObjV) set(k string, v Value) {
	if _, ok := o.m[k]; !ok {
		o.keys = append(o.keys, k)
	}
	o.m[k] = v
}

// isIndex reports whether k is a canonical array index.
func isIndex(k string) (uint64, bool) {
	if k == "" || len(k) > 10 || (k[0] == '0' && len(k) > 1) {
		return 0, false
	}
	for i := 0; i < len(k); i++ {
		if k[i] < '0' || k[i] > '9' {
			return 0, false
		}
	}
	n, _ := strconv.ParseUint(k, 10, 64)
	return n, n < 1<<32-1
}

// ownKeys lists the string keys in OrdinaryOwnPropertyKeys order: array indices ascending, then the others
// in creation order.
func (o *ObjV) ownKeys() []string {
	var idx []uint64
	var rest []string
	for _, k := range o.keys {
		if n, ok := isIndex(k); ok {
			idx = append(idx, n)
		} else {
			rest = append(rest, k)
		}
	}
	if len(idx) == 0 {
		return rest
	}
	sort.Slice(idx, func(i, j int) bool { return idx[i] < idx[j] })
	res := make([]string, 0, len(o.keys))
	for _, n := range idx {
		res = append(res, strconv.FormatUint(n, 10))
	}
	return append(res, rest...)
}

// Unsupported is panicked when a program leaves the modelled subset; the case is then skipped (and counted).
type Unsupported struct{ Msg string }

func unsupported(format string, a ...interface{}) { panic(Unsupported{fmt.Sprintf(format, a...)}) }

// ---- completions ----

const (
	cNormal = iota
	cBreak
	cContinue
	cReturn
	cThrow
)

type comp struct {
	t     int
	v     Value
	label string
}

// abrupt is panicked by expression evaluation: a throw, or the return completion injected by generator.return().
type abrupt struct {
	t int
	v Value
}

func (in *Interp) throwV(v Value)       { panic(&abrupt{cThrow, v}) }
func (in *Interp) typeError(why string) { _ = why; panic(&abrupt{cThrow, &ErrV{"TypeError"}}) }

// try runs f and converts an abrupt panic into a completion.
func try(f func()) (c comp) {
	defer func() {
		if x := recover(); x != nil {
			if a, ok := x.(*abrupt); ok {
				c = comp{t: a.t, v: a.v}
				return
			}
			panic(x)
		}
	}()
	f()
	return
}

// ---- conversions (ECMA-262 7.1) restricted to the value domain of the mini-language ----

func toBool(v Value) bool {
	switch x := v.(type) {
	case nil, nullT:
		return false
	case bool:
		return x
	case float64:
		return !(x == 0 || math.IsNaN(x))
	case string:
		return x != ""
	}
	return true
}

func numToString(x float64) string {
	if math.IsNaN(x) {
		return "NaN"
	}
	if x == math.Trunc(x) && math.Abs(x) < 1e15 {
		if x == 0 {
			return "0"
		}
		return strconv.FormatInt(int64(x), 10)
	}
	unsupported("Number::toString(%v)", x)
	return ""
}

// toPrimitive: arrays and plain objects go through Array.prototype.toString / Object.prototype.toString.
func toPrimitive(v Value) Value {
	switch x := v.(type) {
	case *ArrV:
		parts := make([]string, len(x.El))
		for i, e := range x.El {
			if e == nil || e == Null {
				continue
			}
			parts[i] = toString(e)
		}
		return strings.Join(parts, ",")
	case *ObjV:
		if x.has("toString") || x.has("valueOf") {
			unsupported("ToPrimitive of an object with toString/valueOf")
		}
		return "[object Object]"
	case *GenV:
		return "[object Generator]"
	case *PromV:
		return "[object Promise]"
	case *FuncV:
		unsupported("ToPrimitive(function)")
	case *ErrV:
		unsupported("ToPrimitive(error)")
	}
	return v
}

func toString(v Value) string {
	switch x := toPrimitive(v).(type) {
	case nil:
		return "undefined"
	case nullT:
		return "null"
	case bool:
		if x {
			return "true"
		}
		return "false"
	case float64:
		return numToString(x)
	case string:
		return x
	}
	unsupported("ToString(%T)", v)
	return ""
}

func toNumber(v Value) float64 {
	switch x := v.(type) {
	case nil:
		return math.NaN()
	case nullT:
		return 0
	case bool:
		if x {
			return 1
		}
		return 0
	case float64:
		return x
	}
	unsupported("ToNumber(%T)", v)
	return 0
}

func add(l, r Value) Value {
	lp, rp := toPrimitive(l), toPrimitive(r)
	_, ls := lp.(string)
	_, rs := rp.(string)
	if ls || rs {
		return toString(lp) + toString(rp)
	}
	return toNumber(lp) + toNumber(rp)
}

func strictEq(l, r Value) bool {
	switch x := l.(type) {
	case float64:
		y, ok := r.(float64)
		return ok && x == y
	case string:
		y, ok := r.(string)
		return ok && x == y
	case bool:
		y, ok := r.(bool)
		return ok && x == y
	case nil:
		return r == nil
	case nullT:
		return r == Null
	}
	return l == r
}

func typeOf(v Value) string {
	switch v.(type) {
	case nil:
		return "undefined"
	case float64:
		return "number"
	case string:
		return "string"
	case bool:
		return "boolean"
	case *FuncV:
		return "function"
	}
	return "object"
}

func isObject(v Value) bool {
	switch v.(type) {
	case *ArrV, *ObjV, *FuncV, *ErrV, *GenV, *PromV:
		return true
	}
	return false
}

// Repr is the twin of the prelude's str().
func Repr(v Value) string {
	switch x := v.(type) {
	case nil:
		return "undefined"
	case nullT:
		return "null"
	case bool:
		if x {
			return "true"
		}
		return "false"
	case float64:
		return numToString(x)
	case string:
		return `"` + x + `"`
	case *FuncV:
		return "fn"
	case *ErrV:
		return x.Name
	case *ArrV:
		var sb strings.Builder
		sb.WriteByte('[')
		for i, e := range x.El {
			if i > 0 {
				sb.WriteByte(',')
			}
			sb.WriteString(Repr(e))
		}
		sb.WriteByte(']')
		return sb.String()
	case *GenV:
		return "gen"
	case *PromV:
		return "promise"
	case *ObjV:
		var sb strings.Builder
		sb.WriteByte('{')
		for i, k := range x.ownKeys() {
			if i > 0 {
				sb.WriteByte(',')
			}
			sb.WriteString(k)
			sb.WriteByte(':')
			sb.WriteString(Repr(x.m[k]))
		}
		sb.WriteByte('}')
		return sb.String()
	}
	unsupported("Repr(%T)", v)
	return ""
}

// ---- environments ----

type scope struct {
	names  []string
	vals   []Value
	up     *scope
	isWith bool // the object environment of `with (wo)`
}

func (s *scope) inWith() bool {
	for c := s; c != nil; c = c.up {
		if c.isWith {
			return true
		}
	}
	return false
}

func (s *scope) declare(name string, v Value) {
	s.names = append(s.names, name)
	s.vals = append(s.vals, v)
}

func (s *scope) lookup(name string) *Value {
	for c := s; c != nil; c = c.up {
		for i := len(c.names) - 1; i >= 0; i-- {
			if c.names[i] == name {
				return &c.vals[i]
			}
		}
	}
	return nil
}

// frame is one activation of a generated function (generator or async).
type frame struct {
	co  *coro // the coroutine running this activation (nil for the plain prefix of nothing: always set)
	gen *GenV // the generator object (generator activations)
	env *scope
}

// Interp holds the state of one model run (one history).
type Interp struct {
	Log   []string
	self  *GenV
	wo    *ObjV
	coros []*coro
	fuel  int

	// async part
	jobs []func()
	dfd  map[int]*PromV

	global *scope
}

func NewInterp() *Interp {
	in := &Interp{fuel: 200000}
	in.wo = newObj()
	in.wo.set("wx", 0.0)
	in.global = &scope{}
	in.global.declare("wo", in.wo)
	in.global.declare("f", &FuncV{"f", func(this Value, args []Value) Value {
		parts := make([]string, len(args))
		for i, a := range args {
			parts[i] = Repr(a)
		}
		in.log("f(" + strings.Join(parts, ",") + ")")
		if len(args) == 0 {
			return nil
		}
		return args[0]
	}})
	in.global.declare("lg", &FuncV{"lg", func(this Value, args []Value) Value {
		in.log("L:" + Repr(arg(args, 0)))
		return arg(args, 0)
	}})
	in.global.declare("tg", &FuncV{"tg", func(this Value, args []Value) Value {
		s := arg(args, 0).(*ArrV)
		parts := make([]string, len(s.El))
		for i, e := range s.El {
			parts[i] = e.(string)
		}
		r := strings.Join(parts, "_") + "|"
		for i := 1; i < len(args); i++ {
			if i > 1 {
				r += ","
			}
			r += Repr(args[i])
		}
		in.log("tg:" + r)
		return r
	}})
	return in
}

func arg(args []Value, i int) Value {
	if i < len(args) {
		return args[i]
	}
	return nil
}

func (in *Interp) log(s string) { in.Log = append(in.Log, s) }

func (in *Interp) tick() {
	in.fuel--
	if in.fuel < 0 {
		unsupported("model fuel exhausted")
	}
}

// newFuncScope builds the scope of one activation of a generated function: p, q, the fixed head locals and
// the local closures.
func (in *Interp) newFuncScope(p, q Value, head bool) *scope {
	s := &scope{up: in.global}
	s.declare("p", p)
	s.declare("q", q)
	s.declare("a", 0.0)
	if !head {
		return s
	}
	s.declare("b", 1.0)
	s.declare("c", 0.0)
	s.declare("h", 0.0)
	o := newObj()
	o.set("m", &FuncV{"m", func(this Value, args []Value) Value {
		in.log("m(" + Repr(this == Value(o)) + "," + Repr(arg(args, 0)) + "," + Repr(arg(args, 1)) + ")")
		return arg(args, 1)
	}})
	s.declare("o", o)
	cIdx, hIdx := 4, 5 // positions of c and h in s.vals
	s.declare("inc", &FuncV{"inc", func(this Value, args []Value) Value {
		s.vals[cIdx] = toNumber(s.vals[cIdx]) + 1
		return s.vals[cIdx]
	}})
	s.declare("geth", &FuncV{"geth", func(this Value, args []Value) Value { return s.vals[hIdx] }})
	s.declare("seth", &FuncV{"seth", func(this Value, args []Value) Value { s.vals[hIdx] = arg(args, 0); return arg(args, 0) }})
	return s
}

// ---- iterator protocol (7.4) ----

type iterRec struct {
	iter Value
	next *FuncV
	done bool
}

type arrIter struct {
	a *ArrV
	i int
}
type strIter struct {
	s string
	i int
}

func (in *Interp) iterResult(v Value, done bool) *ObjV {
	o := newObj()
	o.set("value", v)
	o.set("done", done)
	return o
}

// getMethod implements GetMethod(v, name) for the objects of the model.
func (in *Interp) getMethod(v Value, name string) *FuncV {
	switch x := v.(type) {
	case *ObjV:
		m := x.get(name)
		if m == nil || m == Null {
			return nil
		}
		f, ok := m.(*FuncV)
		if !ok {
			in.typeError("method is not callable")
		}
		return f
	case *GenV:
		switch name {
		case "next":
			return &FuncV{"next", func(this Value, args []Value) Value { return in.genResume(this, arg(args, 0)) }}
		case "throw":
			return &FuncV{"throw", func(this Value, args []Value) Value { return in.genResumeAbrupt(this, cThrow, arg(args, 0)) }}
		case "return":
			return &FuncV{"return", func(this Value, args []Value) Value { return in.genResumeAbrupt(this, cReturn, arg(args, 0)) }}
		}
		return nil
	case *arrIter:
		if name == "next" {
			return &FuncV{"next", func(this Value, args []Value) Value {
				it := this.(*arrIter)
				if it.a == nil || it.i >= len(it.a.El) {
					it.a = nil
					return in.iterResult(nil, true)
				}
				it.i++
				return in.iterResult(it.a.El[it.i-1], false)
			}}
		}
		return nil
	case *strIter:
		if name == "next" {
			return &FuncV{"next", func(this Value, args []Value) Value {
				it := this.(*strIter)
				if it.i >= len(it.s) {
					return in.iterResult(nil, true)
				}
				if it.s[it.i] >= 0x80 {
					unsupported("non-ASCII string iteration")
				}
				it.i++
				return in.iterResult(it.s[it.i-1:it.i], false)
			}}
		}
		return nil
	}
	unsupported("GetMethod(%T, %s)", v, name)
	return nil
}

// getIterator implements GetIterator(v, sync).
func (in *Interp) getIterator(v Value) *iterRec {
	var iter Value
	switch x := v.(type) {
	case *ArrV:
		iter = &arrIter{a: x}
	case string:
		iter = &strIter{s: x}
	case *GenV:
		iter = x
	case *ObjV:
		if x.iterFn == nil {
			in.typeError("not iterable")
		}
		iter = x.iterFn.Call(x, nil)
		if !isObject(iter) {
			in.typeError("iterator is not an object")
		}
	case *arrIter, *strIter:
		iter = x
	default:
		in.typeError("not iterable")
	}
	// GetIteratorDirect reads "next" once (a non-callable next fails only when it is called)
	return &iterRec{iter: iter, next: in.getMethod(iter, "next")}
}

func (in *Interp) getProp(o Value, k string) Value {
	switch x := o.(type) {
	case *ObjV:
		return x.get(k)
	case *ArrV:
		if k == "length" {
			return float64(len(x.El))
		}
		if n, ok := isIndex(k); ok {
			if int(n) < len(x.El) {
				return x.El[n]
			}
			return nil
		}
	case nil, nullT:
		in.typeError("property of undefined")
	case float64, bool:
		return nil
	case string:
		if k == "length" {
			return float64(len(x))
		}
		if n, ok := isIndex(k); ok {
			if int(n) < len(x) {
				return x[n : n+1]
			}
			return nil
		}
		if k == "a" || k == "b" {
			return nil
		}
	}
	unsupported("Get(%T, %q)", o, k)
	return nil
}

// iterStep = IteratorStep + IteratorValue: ok=false when the iterator is done.
func (in *Interp) iterStep(r *iterRec) (v Value, ok bool) {
	if r.next == nil {
		in.typeError("next is not callable")
	}
	res := r.next.Call(r.iter, nil)
	if !isObject(res) {
		in.typeError("iterator result is not an object")
	}
	if toBool(in.getProp(res, "done")) {
		return nil, false
	}
	return in.getProp(res, "value"), true
}

// iterClose implements IteratorClose(iteratorRecord, completion) and returns the resulting completion.
func (in *Interp) iterClose(r *iterRec, c comp) comp {
	var ret *FuncV
	inner := try(func() { ret = in.getMethod(r.iter, "return") })
	var innerV Value
	if inner.t == cNormal {
		if ret == nil {
			return c
		}
		inner = try(func() { innerV = ret.Call(r.iter, nil) })
	}
	if c.t == cThrow {
		return c
	}
	if inner.t == cThrow {
		return inner
	}
	if !isObject(innerV) {
		return comp{t: cThrow, v: &ErrV{"TypeError"}}
	}
	return c
}

// iterate runs f over the remaining items of v's iterator with for-of / spread semantics (no close on
// exhaustion, IteratorClose when f completes abruptly is the caller's business: f never does here).
func (in *Interp) spreadInto(dst []Value, v Value) []Value {
	r := in.getIterator(v)
	for {
		in.tick()
		x, ok := in.iterStep(r)
		if !ok {
			return dst
		}
		dst = append(dst, x)
	}
}

// ---- expressions ----

func (in *Interp) evalArgs(fr *frame, sc *scope, l []*N) []Value {
	var res []Value
	for _, a := range l {
		if a.K == Spread {
			res = in.spreadInto(res, in.eval(fr, sc, a.X[0]))
		} else {
			res = append(res, in.eval(fr, sc, a))
		}
	}
	return res
}

func (in *Interp) lookup(sc *scope, name string) *Value {
	p := sc.lookup(name)
	if p == nil {
		// ReferenceError for an unresolvable name
		panic(&abrupt{cThrow, &ErrV{"ReferenceError"}})
	}
	return p
}

func (in *Interp) callFn(f Value, this Value, args []Value) Value {
	fn, ok := f.(*FuncV)
	if !ok {
		in.typeError("not a function")
	}
	return fn.Call(this, args)
}

func propKey(v Value) string { return toString(v) }

func (in *Interp) setProp(o Value, k string, v Value) {
	ob, ok := o.(*ObjV)
	if !ok {
		if o == nil || o == Null {
			in.typeError("cannot set property of undefined")
		}
		unsupported("Set(%T)", o)
	}
	ob.set(k, v)
}

func (in *Interp) eval(fr *frame, sc *scope, e *N) Value {
	in.tick()
	switch e.K {
	case Num:
		return float64(e.I)
	case Str:
		return e.S
	case Undef:
		return nil
	case Var:
		return *in.lookup(sc, e.S)
	case Yield:
		var v Value
		if len(e.X) > 0 {
			v = in.eval(fr, sc, e.X[0])
		}
		if fr.gen == nil {
			// async rendering: await df(v)
			return in.await(fr, in.df(v))
		}
		fr.gen.at = e
		return in.genYield(fr, in.iterResult(v, false))
	case YStar:
		if fr.gen == nil {
			// async rendering: await dfs(v); a library generator stands for a call of its async twin
			if e.X[0].K == GInst {
				return in.await(fr, in.asyncStart(Inner(e.X[0].I), in.newFuncScope(nil, nil, false)))
			}
			return in.await(fr, in.eval(fr, sc, e.X[0]))
		}
		it := in.eval(fr, sc, e.X[0])
		fr.gen.at = e
		return in.yieldStar(fr, it)
	case Await:
		return in.await(fr, in.eval(fr, sc, e.X[0]))
	case Bin:
		l := in.eval(fr, sc, e.X[0])
		r := in.eval(fr, sc, e.X[1])
		switch e.S {
		case "+":
			return add(l, r)
		case "===":
			return strictEq(l, r)
		case ",":
			return r
		}
		unsupported("operator %s", e.S)
	case Logic:
		l := in.eval(fr, sc, e.X[0])
		switch e.S {
		case "&&":
			if !toBool(l) {
				return l
			}
		case "||":
			if toBool(l) {
				return l
			}
		case "??":
			if l != nil && l != Null {
				return l
			}
		default:
			unsupported("operator %s", e.S)
		}
		return in.eval(fr, sc, e.X[1])
	case Cond:
		if toBool(in.eval(fr, sc, e.X[0])) {
			return in.eval(fr, sc, e.X[1])
		}
		return in.eval(fr, sc, e.X[2])
	case Asg:
		ref := in.lookup(sc, e.S)
		v := in.eval(fr, sc, e.X[0])
		*ref = v
		return v
	case OpAsg:
		ref := in.lookup(sc, e.S)
		l := *ref
		r := in.eval(fr, sc, e.X[0])
		v := add(l, r)
		*ref = v
		return v
	case SetM:
		o := in.eval(fr, sc, e.X[0])
		k := in.eval(fr, sc, e.X[1])
		v := in.eval(fr, sc, e.X[2])
		in.setProp(o, propKey(k), v)
		return v
	case GetM:
		o := in.eval(fr, sc, e.X[0])
		k := in.eval(fr, sc, e.X[1])
		return in.getProp(o, propKey(k))
	case Call:
		f := *in.lookup(sc, e.S)
		args := in.evalArgs(fr, sc, e.X)
		return in.callFn(f, nil, args)
	case MCall:
		o := in.eval(fr, sc, e.X[0])
		f := in.getProp(o, e.S)
		args := in.evalArgs(fr, sc, e.X[1:])
		return in.callFn(f, o, args)
	case New:
		if e.S != "Pt" {
			unsupported("new %s", e.S)
		}
		args := in.evalArgs(fr, sc, e.X)
		in.log("new(" + Repr(arg(args, 0)) + "," + Repr(arg(args, 1)) + ")")
		o := newObj()
		o.set("x", arg(args, 0))
		o.set("y", arg(args, 1))
		return o
	case Arr:
		return &ArrV{El: in.evalArgs(fr, sc, e.X)}
	case Obj:
		o := newObj()
		for i := 0; i+1 < len(e.X); i += 2 {
			var k string
			if e.X[i].K == Key {
				k = e.X[i].S
			} else {
				k = propKey(in.eval(fr, sc, e.X[i]))
			}
			o.set(k, in.eval(fr, sc, e.X[i+1]))
		}
		return o
	case Tmpl:
		var sb strings.Builder
		for i, s := range e.X {
			sb.WriteString("t" + strconv.Itoa(i))
			sb.WriteString(toString(in.eval(fr, sc, s)))
		}
		sb.WriteString("t" + strconv.Itoa(len(e.X)))
		return sb.String()
	case Tag:
		f := *in.lookup(sc, "tg")
		strs := &ArrV{}
		for i := 0; i <= len(e.X); i++ {
			strs.El = append(strs.El, "t"+strconv.Itoa(i))
		}
		args := []Value{strs}
		for _, s := range e.X {
			args = append(args, in.eval(fr, sc, s))
		}
		return in.callFn(f, nil, args)
	case DsA, DsM:
		return in.destructArray(fr, sc, e)
	case DsO:
		rhs := in.eval(fr, sc, e.X[2])
		if rhs == nil || rhs == Null {
			in.typeError("cannot destructure undefined")
		}
		for i, name := range []string{"a", "b"} {
			ref := in.lookup(sc, name)
			v := in.getProp(rhs, name)
			if v == nil {
				v = in.eval(fr, sc, e.X[i])
			}
			*ref = v
		}
		return rhs
	case TypeOf:
		return typeOf(in.eval(fr, sc, e.X[0]))
	case Not:
		return !toBool(in.eval(fr, sc, e.X[0]))
	case Args:
		switch e.I {
		case 0:
			return *in.lookup(sc, "p")
		case 1:
			return *in.lookup(sc, "q")
		}
		return nil
	case ArgSet:
		v := in.eval(fr, sc, e.X[0])
		switch e.I {
		case 0:
			*in.lookup(sc, "p") = v
		case 1:
			*in.lookup(sc, "q") = v
		default:
			unsupported("arguments[%d] = v", e.I)
		}
		return v
	case ArgLen:
		return 2.0
	case Self:
		// self.<op>(X0): member lookup on self precedes the argument evaluation
		if in.self == nil {
			in.typeError("self is undefined")
		}
		m := in.getMethod(in.self, e.S)
		v := in.eval(fr, sc, e.X[0])
		return m.Call(in.self, []Value{v})
	case WAsg:
		// inside with (wo): wx resolves to the object environment record of wo (wx is always present)
		if !sc.inWith() {
			unsupported("wx = v outside with")
		}
		v := in.eval(fr, sc, e.X[0])
		in.wo.set("wx", v)
		return v
	case WGet:
		if !sc.inWith() {
			panic(&abrupt{cThrow, &ErrV{"ReferenceError"}})
		}
		return in.wo.get("wx")
	case GInst:
		return in.newLibGen(e.I, fr.gen == nil)
	case Iter:
		return in.mkit(e.I)
	case Prom:
		if fr.gen != nil {
			return float64(e.I)
		}
		return in.deferred(e.I)
	}
	unsupported("expression kind %s", e.K)
	return nil
}

// destructArray implements ArrayAssignmentPattern evaluation for the two shapes of the mini-language:
// [a = X0, b = X1] = X2 and [o[X0], o[X1]] = X2 (13.15.5.2/.3/.5).
func (in *Interp) destructArray(fr *frame, sc *scope, e *N) Value {
	rhs := in.eval(fr, sc, e.X[2])
	r := in.getIterator(rhs)
	c := try(func() {
		for i := 0; i < 2; i++ {
			var ref *Value
			var mobj Value
			var mkey string
			if e.K == DsA {
				ref = in.lookup(sc, []string{"a", "b"}[i])
			} else {
				mobj = *in.lookup(sc, "o")
				mkey = propKey(in.eval(fr, sc, e.X[i]))
			}
			var v Value
			if !r.done {
				var ok bool
				sc2 := try(func() { v, ok = in.iterStep(r) })
				if sc2.t != cNormal {
					r.done = true
					panic(&abrupt{sc2.t, sc2.v})
				}
				if !ok {
					r.done = true
					v = nil
				}
			}
			if e.K == DsA {
				if v == nil {
					v = in.eval(fr, sc, e.X[i])
				}
				*ref = v
			} else {
				in.setProp(mobj, mkey, v)
			}
		}
	})
	if c.t != cNormal {
		if !r.done {
			c = in.iterClose(r, c)
		}
		panic(&abrupt{c.t, c.v})
	}
	if !r.done {
		if c2 := in.iterClose(r, comp{}); c2.t != cNormal {
			panic(&abrupt{c2.t, c2.v})
		}
	}
	return rhs
}

// ---- statements ----

func (in *Interp) evalC(fr *frame, sc *scope, e *N) (v Value, c comp) {
	c = try(func() { v = in.eval(fr, sc, e) })
	return
}

func (in *Interp) execList(fr *frame, sc *scope, l []*N) comp {
	for _, s := range l {
		if c := in.exec(fr, sc, s); c.t != cNormal {
			return c
		}
	}
	return comp{}
}

// loopContinues implements LoopContinues for a loop labelled own ("" = unlabelled).
func loopContinues(c comp, own string) bool {
	if c.t == cNormal {
		return true
	}
	if c.t != cContinue {
		return false
	}
	return c.label == "" || c.label == own
}

// loopExit maps the completion that ended a loop to the completion of the (labelled) loop statement.
func loopExit(c comp, own string) comp {
	if c.t == cBreak && (c.label == "" || c.label == own) {
		return comp{}
	}
	return c
}

func (in *Interp) exec(fr *frame, sc *scope, s *N) comp {
	in.tick()
	switch s.K {
	case Expr:
		_, c := in.evalC(fr, sc, s.X[0])
		return c
	case Ret:
		if len(s.X) == 0 {
			return comp{t: cReturn}
		}
		v, c := in.evalC(fr, sc, s.X[0])
		if c.t != cNormal {
			return c
		}
		return comp{t: cReturn, v: v}
	case Thr:
		v, c := in.evalC(fr, sc, s.X[0])
		if c.t != cNormal {
			return c
		}
		return comp{t: cThrow, v: v}
	case If:
		v, c := in.evalC(fr, sc, s.X[0])
		if c.t != cNormal {
			return c
		}
		if toBool(v) {
			return in.execList(fr, &scope{up: sc}, s.A)
		}
		return in.execList(fr, &scope{up: sc}, s.B)
	case Try:
		c := in.execList(fr, &scope{up: sc}, s.A)
		if c.t == cThrow && s.F&HasCatch != 0 {
			cs := &scope{up: sc}
			cs.declare("e", c.v)
			c = in.execList(fr, cs, s.B)
		}
		if s.F&HasFinally != 0 {
			if f := in.execList(fr, &scope{up: sc}, s.C); f.t != cNormal {
				c = f
			}
		}
		return c
	case For:
		ls := &scope{up: sc}
		ls.declare("i", 0.0)
		for toNumber(ls.vals[0]) < float64(s.I) {
			in.tick()
			c := in.execList(fr, &scope{up: ls}, s.A)
			if !loopContinues(c, s.S) {
				return loopExit(c, s.S)
			}
			ls.vals[0] = toNumber(ls.vals[0]) + 1
		}
		return comp{}
	case While:
		w := 0
		for {
			in.tick()
			w++
			if !(w-1 < s.I) {
				return comp{}
			}
			c := in.execList(fr, &scope{up: sc}, s.A)
			if !loopContinues(c, s.S) {
				return loopExit(c, s.S)
			}
		}
	case DoWhile:
		d := 0
		for {
			in.tick()
			c := in.execList(fr, &scope{up: sc}, s.A)
			if !loopContinues(c, s.S) {
				return loopExit(c, s.S)
			}
			d++
			if !(d < s.I) {
				return comp{}
			}
		}
	case ForIn:
		for _, k := range []string{"x", "y"} {
			ls := &scope{up: sc}
			ls.declare("k", k)
			c := in.execList(fr, ls, s.A)
			if !loopContinues(c, s.S) {
				return loopExit(c, s.S)
			}
		}
		return comp{}
	case ForOf:
		v, c := in.evalC(fr, sc, s.X[0])
		if c.t != cNormal {
			return c
		}
		var r *iterRec
		if c = try(func() { r = in.getIterator(v) }); c.t != cNormal {
			return c
		}
		for {
			in.tick()
			var x Value
			var ok bool
			if c = try(func() { x, ok = in.iterStep(r) }); c.t != cNormal {
				return c
			}
			if !ok {
				return comp{}
			}
			ls := &scope{up: sc}
			ls.declare("x", x)
			c = in.execList(fr, ls, s.A)
			if !loopContinues(c, s.S) {
				return loopExit(in.iterClose(r, c), s.S)
			}
		}
	case Brk:
		return comp{t: cBreak, label: s.S}
	case Cont:
		return comp{t: cContinue, label: s.S}
	case Blk:
		bs := &scope{up: sc}
		if s.F&1 != 0 {
			bs.declare("z", 5.0)
			bs.declare("gz", &FuncV{"gz", func(this Value, args []Value) Value { return bs.vals[0] }})
		}
		return in.execList(fr, bs, s.A)
	case Lbl:
		c := in.execList(fr, &scope{up: sc}, s.A)
		if c.t == cBreak && c.label == s.S {
			return comp{}
		}
		return c
	case With:
		return in.execList(fr, &scope{up: sc, isWith: true}, s.A)
	case Sw:
		v, c := in.evalC(fr, sc, s.X[0])
		if c.t != cNormal {
			return c
		}
		bs := &scope{up: sc}
		var lists [][]*N
		switch {
		case strictEq(v, 1.0):
			lists = [][]*N{s.A, s.B, s.C}
		case strictEq(v, 2.0):
			lists = [][]*N{s.B, s.C}
		default:
			lists = [][]*N{s.C}
		}
		for _, l := range lists {
			c = in.execList(fr, bs, l)
			if c.t == cBreak && c.label == "" {
				return comp{}
			}
			if c.t != cNormal {
				return c
			}
		}
		return comp{}
	}
	unsupported("statement kind %s", s.K)
	return comp{}
}

// ---- the instrumented iterator mkit(fl) ----

func (in *Interp) mkit(fl int) Value {
	k := 0
	it := newObj()
	it.set("next", &FuncV{"next", func(this Value, args []Value) Value {
		in.log("it.next(" + Repr(arg(args, 0)) + ")")
		k++
		if fl&ItReent != 0 {
			var r Value
			c := try(func() {
				if in.self == nil {
					in.typeError("self is undefined")
				}
				r = in.genResume(in.self, 99.0)
			})
			if c.t == cThrow {
				in.log("reent!" + Repr(c.v))
			} else {
				in.log("reent:" + Repr(r))
			}
		}
		if fl&ItNextPrim != 0 && k == 2 {
			return 5.0
		}
		if fl&ItNextThrow != 0 && k == 2 {
			in.throwV("itE")
		}
		if k <= 2 {
			return in.iterResult("it"+strconv.Itoa(k), false)
		}
		return in.iterResult("itR", true)
	}})
	it.iterFn = &FuncV{"iter", func(this Value, args []Value) Value { in.log("it.iter"); return it }}
	if fl&ItHasThrow != 0 {
		it.set("throw", &FuncV{"throw", func(this Value, args []Value) Value {
			in.log("it.throw(" + Repr(arg(args, 0)) + ")")
			if fl&ItThrowDone != 0 {
				return in.iterResult("itTD", true)
			}
			return in.iterResult("itT", false)
		}})
	}
	if fl&ItHasReturn != 0 {
		it.set("return", &FuncV{"return", func(this Value, args []Value) Value {
			in.log("it.return(" + Repr(arg(args, 0)) + ")")
			if fl&ItRetThrow != 0 {
				in.throwV("itRE")
			}
			if fl&ItRetPrim != 0 {
				return 7.0
			}
			if fl&ItRetNotDone != 0 {
				return in.iterResult("itRN", false)
			}
			r := in.iterResult(&ArrV{El: []Value{arg(args, 0)}}, true)
			r.set("extra", 1.0)
			return r
		}})
	}
	return it
}
