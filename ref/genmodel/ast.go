// Package genmodel is the reference model of the C09 check: a small JavaScript subset ("mini-language") whose
// programs are Go ASTs (N), a printer that renders an AST as JavaScript (generator function or async function),
// and a definitional interpreter of the same ASTs written directly from ECMA-262: completion records for
// statements, the generator state machine (GeneratorStart / GeneratorResume / GeneratorResumeAbrupt /
// GeneratorYield, yield* delegation with next/throw/return forwarding and the IteratorClose rules), for-of /
// spread / destructuring over the iterator protocol, and - for the async rendering - Await on top of a
// small promise + FIFO job queue model. A generator activation is a coroutine (one goroutine, strict hand-off
// over channels). The package does not import the engine under test.
package genmodel

import (
	"fmt"
	"strings"
)

// N is one AST node (expression or statement). K selects the kind; the meaning of the other members depends
// on K (see the constants below).
type N struct {
	K string `json:"k"`
	S string `json:"s,omitempty"`
	I int    `json:"i,omitempty"`
	F int    `json:"f,omitempty"`
	X []*N   `json:"x,omitempty"` // expression operands
	A []*N   `json:"a,omitempty"` // statement lists
	B []*N   `json:"b,omitempty"`
	C []*N   `json:"c,omitempty"`
}

// Expression kinds.
const (
	Num    = "num"    // I
	Str    = "str"    // "S"
	Undef  = "undef"  // undefined
	Var    = "var"    // S
	Yield  = "yield"  // yield [X0]
	YStar  = "ystar"  // yield* X0
	Await  = "await"  // await X0                     (async rendering only)
	Bin    = "bin"    // X0 S X1                      S in + === ,
	Logic  = "logic"  // X0 S X1                      S in && || ??
	Cond   = "cond"   // X0 ? X1 : X2
	Asg    = "asg"    // S = X0
	OpAsg  = "opasg"  // S += X0
	SetM   = "setm"   // X0[X1] = X2
	GetM   = "getm"   // X0[X1]
	Call   = "call"   // S(X...)                      S names a helper / local closure; X may hold Spread
	MCall  = "mcall"  // X0.S(X1...)
	New    = "new"    // new S(X...)
	Spread = "spread" // ...X0                        (inside Call / MCall / New / Arr)
	Arr    = "arr"    // [X...]
	Obj    = "obj"    // {k1: v1, k2: v2}             X = k1,v1,k2,v2; key of kind Key = static name, else computed
	Key    = "key"    // static property name S
	Tmpl   = "tmpl"   // `t0${X0}t1${X1}t2`
	Tag    = "tag"    // tg`t0${X0}t1${X1}t2`
	DsA    = "dsa"    // ([a = X0, b = X1] = X2)
	DsO    = "dso"    // ({a = X0, b = X1} = X2)
	DsM    = "dsm"    // ([o[X0], o[X1]] = X2)
	TypeOf = "typeof" // typeof X0
	Not    = "not"    // !X0
	Args   = "args"   // arguments[I]
	ArgSet = "argset" // arguments[I] = X0
	ArgLen = "arglen" // arguments.length
	Self   = "self"   // self.S(X0)                   re-entrant call on the running generator
	WAsg   = "wasg"   // wx = X0                      (inside With: wx is a property of the with-object wo)
	WGet   = "wget"   // wx
	GInst  = "ginst"  // inner<I>()                   instance of library generator I
	Iter   = "iter"   // mkit(I)                      instrumented iterator with flag set I
	Prom   = "prom"   // dfp(I)                       generator rendering: the number I; async rendering: the deferred promise I itself (not awaited)
)

// Statement kinds.
const (
	Expr    = "expr"    // X0;
	Ret     = "ret"     // return [X0];
	Thr     = "thr"     // throw X0;
	If      = "if"      // if (X0) {A} else {B}
	Try     = "try"     // try {A} [catch (e) {B}] [finally {C}]      F&1 catch present, F&2 finally present
	For     = "for"     // [S:] for (let i = 0; i < I; i++) {A}
	While   = "while"   // { let w = 0; [S:] while (w++ < I) {A} }
	DoWhile = "dowhile" // { let d = 0; [S:] do {A} while (++d < I); }
	ForIn   = "forin"   // [S:] for (let k in {x:1, y:2}) {A}
	ForOf   = "forof"   // [S:] for (let x of X0) {A}
	Brk     = "brk"     // break [S];
	Cont    = "cont"    // continue [S];
	Blk     = "blk"     // { let z = 5, gz = () => z; A }            (F&1: with the captured let; else a plain block)
	Lbl     = "lbl"     // S: { A }
	With    = "with"    // with (wo) { A }
	Sw      = "sw"      // switch (X0) { case 1: A case 2: B default: C }
)

// Flags of Try.
const (
	HasCatch   = 1
	HasFinally = 2
)

// Flags of the instrumented iterator mkit(fl).
const (
	ItHasThrow   = 1   // has a throw method (logs; returns {value:"itT",done:false})
	ItThrowDone  = 2   // ... which returns {value:"itTD",done:true}
	ItHasReturn  = 4   // has a return method (logs; returns {value:[v],done:true,extra:1})
	ItRetPrim    = 8   // ... which returns the primitive 7
	ItRetNotDone = 16  // ... which returns {value:"itRN",done:false}
	ItReent      = 32  // next() first calls self.next(99) and logs the outcome
	ItNextPrim   = 64  // the 2nd next() returns the primitive 5
	ItNextThrow  = 128 // the 2nd next() throws "itE"
	ItRetThrow   = 256 // return() throws "itRE"
)

// Function kinds of a Program.
const (
	KindDecl   = 0 // function* G(p, q) {…}            async: async function G(p, q) {…}
	KindMethod = 1 // ({ *G(p, q) {…} }).G             async: ({ async G(p, q) {…} }).G
	KindArrow  = 2 // (async only) async (p, q) => {…}  (no arguments object)
)

// Program is one enumerated case body: the statements of the generator function G(p, q).
type Program struct {
	Body []*N `json:"body"`
	Cap  bool `json:"cap,omitempty"`  // a closure captures a, b, p, q (they live in the heap scope, not in registers)
	Kind int  `json:"kind,omitempty"` // function kind
}

// ---- constructors (used by the enumerator and the corpus) ----

func E(k string, x ...*N) *N          { return &N{K: k, X: x} }
func ES(k, s string, x ...*N) *N      { return &N{K: k, S: s, X: x} }
func NumN(i int) *N                   { return &N{K: Num, I: i} }
func StrN(s string) *N                { return &N{K: Str, S: s} }
func VarN(s string) *N                { return &N{K: Var, S: s} }
func Y(x ...*N) *N                    { return &N{K: Yield, X: x} }
func YS(x *N) *N                      { return &N{K: YStar, X: []*N{x}} }
func GI(i int) *N                     { return &N{K: GInst, I: i} }
func It(fl int) *N                    { return &N{K: Iter, I: fl} }
func St(x *N) *N                      { return &N{K: Expr, X: []*N{x}} }
func AsgN(v string, x *N) *N          { return &N{K: Asg, S: v, X: []*N{x}} }
func CallN(f string, x ...*N) *N      { return &N{K: Call, S: f, X: x} }
func TryN(a, b, c []*N, f int) *N     { return &N{K: Try, A: a, B: b, C: c, F: f} }
func Loop(k string, n int, a []*N) *N { return &N{K: k, I: n, A: a} }
func ForOfN(it *N, a []*N) *N         { return &N{K: ForOf, X: []*N{it}, A: a} }
func RetN(x ...*N) *N                 { return &N{K: Ret, X: x} }
func ThrN(x *N) *N                    { return &N{K: Thr, X: []*N{x}} }
func L(s ...*N) []*N                  { return s }
func IfN(c *N, a, b []*N) *N          { return &N{K: If, X: []*N{c}, A: a, B: b} }
func (n *N) WithLabel(l string) *N    { n.S = l; return n }
func Lg(x *N) *N                      { return CallN("lg", x) }
func LgS(s string) *N                 { return St(CallN("lg", StrN(s))) }
func SelfN(op string, x *N) *N        { return &N{K: Self, S: op, X: []*N{x}} }
func ObjN(kv ...*N) *N                { return &N{K: Obj, X: kv} }
func KeyN(s string) *N                { return &N{K: Key, S: s} }
func Clone(n *N) *N                   { return cloneN(n) }
func CloneList(l []*N) []*N           { return cloneL(l) }
func cloneL(l []*N) []*N {
	if l == nil {
		return nil
	}
	r := make([]*N, len(l))
	for i, n := range l {
		r[i] = cloneN(n)
	}
	return r
}
func cloneN(n *N) *N {
	if n == nil {
		return nil
	}
	c := *n
	c.X, c.A, c.B, c.C = cloneL(n.X), cloneL(n.A), cloneL(n.B), cloneL(n.C)
	return &c
}

// Walk calls f on n and all its descendants.
func Walk(l []*N, f func(*N)) {
	for _, n := range l {
		if n == nil {
			continue
		}
		f(n)
		Walk(n.X, f)
		Walk(n.A, f)
		Walk(n.B, f)
		Walk(n.C, f)
	}
}

// Uses reports whether any node of kind k occurs in the program body.
func (p *Program) Uses(kinds ...string) bool {
	found := false
	Walk(p.Body, func(n *N) {
		for _, k := range kinds {
			if n.K == k {
				found = true
			}
		}
	})
	return found
}

// CountYields returns the number of yield / yield* nodes.
func (p *Program) CountYields() int {
	c := 0
	Walk(p.Body, func(n *N) {
		if n.K == Yield || n.K == YStar {
			c++
		}
	})
	return c
}

// Where renders the syntactic position of node n inside the body as the chain of enclosing constructs,
// outermost first, e.g. "try.finally/for-of/call/yield" (plain statement and assignment wrappers are left out).
func (p *Program) Where(n *N) string {
	var path []string
	var find func(l []*N, slot string) bool
	name := func(x *N, slot string) string {
		switch x.K {
		case Expr, Asg, Blk, Key:
			return ""
		case Try:
			return "try" + slot
		case YStar:
			o := x.X[0]
			switch o.K {
			case GInst:
				return fmt.Sprintf("yield*inner%d", o.I)
			case Iter:
				return fmt.Sprintf("yield*it(%d)", o.I)
			}
			return "yield*" + o.K
		case Bin, Logic:
			return x.S
		case Call:
			return x.S + "()"
		}
		return x.K
	}
	find = func(l []*N, slot string) bool {
		for _, x := range l {
			if x == nil {
				continue
			}
			path = append(path, name(x, ""))
			if x == n {
				return true
			}
			if x.K == Try {
				path = path[:len(path)-1]
				for _, b := range []struct {
					l []*N
					s string
				}{{x.A, ".block"}, {x.B, ".catch"}, {x.C, finallySlot(x)}} {
					path = append(path, "try"+b.s)
					if find(b.l, "") {
						return true
					}
					path = path[:len(path)-1]
				}
				continue
			}
			if find(x.X, "") || find(x.A, "") || find(x.B, "") || find(x.C, "") {
				return true
			}
			path = path[:len(path)-1]
		}
		return false
	}
	if !find(p.Body, "") {
		return "?"
	}
	var parts []string
	for _, s := range path {
		if s != "" {
			parts = append(parts, s)
		}
	}
	return strings.Join(parts, "/")
}

// finallySlot names the finally block of a try statement; "(c)" marks a statement that also has a catch clause.
func finallySlot(t *N) string {
	if t.F&HasCatch != 0 {
		return ".finally(c)"
	}
	return ".finally"
}

// ---- the library of inner generators (interpreted by the model from these very ASTs) ----

// Inner returns the body of library generator function inner<i>() (i = 1..NInner).
func Inner(i int) []*N {
	switch i {
	case 1:
		// try { lg("i1a"); a = yield "i1"; lg(a); yield "i2"; return "iR" } finally { lg("i1f") }
		return L(TryN(L(LgS("i1a"), St(AsgN("a", Y(StrN("i1")))), St(Lg(VarN("a"))), St(Y(StrN("i2"))), RetN(StrN("iR"))),
			nil, L(LgS("i1f")), HasFinally))
	case 2:
		// try { yield "j1" } finally { lg("j2f"); a = yield "j2"; lg(a) } return "jR"
		return L(TryN(L(St(Y(StrN("j1")))), nil, L(LgS("j2f"), St(AsgN("a", Y(StrN("j2")))), St(Lg(VarN("a")))), HasFinally), RetN(StrN("jR")))
	case 3:
		// try { yield "k1"; yield "k2" } catch (e) { lg(e); yield "k3" } return "kR"
		return L(TryN(L(St(Y(StrN("k1"))), St(Y(StrN("k2")))), L(St(Lg(VarN("e"))), St(Y(StrN("k3")))), nil, HasCatch), RetN(StrN("kR")))
	}
	panic("genmodel: no such inner generator")
}

const NInner = 3

// ---- printer ----

type printer struct {
	sb    strings.Builder
	async bool
}

func (p *printer) f(format string, a ...interface{}) { fmt.Fprintf(&p.sb, format, a...) }
func (p *printer) w(s string)                        { p.sb.WriteString(s) }

// JS renders the program as the definition of the global G: a generator function, or (async) an async function
// in which every `yield E` is `await df(E)` and every `yield* E` is `await dfs(E)`.
func (p *Program) JS(async bool) string {
	pr := &printer{async: async}
	star, kw := "*", ""
	if async {
		star, kw = "", "async "
	}
	switch p.Kind {
	case KindDecl:
		pr.f("G = %sfunction%s G(p, q) {\n", kw, star)
	case KindMethod:
		pr.f("G = ({ %s%sG(p, q) {\n", kw, star)
	case KindArrow:
		pr.f("G = %s(p, q) => {\n", kw)
	}
	pr.w(FuncHead(p.Cap))
	pr.list(p.Body)
	switch p.Kind {
	case KindDecl, KindArrow:
		pr.w("};\n")
	case KindMethod:
		pr.w("} }).G;\n")
	}
	return pr.sb.String()
}

// FuncHead is the fixed preamble of every generated function: the locals and the local closures.
func FuncHead(cap bool) string {
	s := "let a = 0, b = 1, c = 0, h = 0;\n" +
		"const o = { m(x, y) { log(\"m(\" + (this === o) + \",\" + str(x) + \",\" + str(y) + \")\"); return y; } };\n" +
		"const inc = () => ++c, geth = () => h, seth = v => (h = v);\n"
	if cap {
		s += "const cap = () => [a, b, p, q];\n"
	}
	return s
}

// PrintList renders a statement list (used for the library generators).
func PrintList(l []*N, async bool) string {
	pr := &printer{async: async}
	pr.list(l)
	return pr.sb.String()
}

func (p *printer) list(l []*N) {
	for _, s := range l {
		p.stmt(s)
	}
}

func lbl(s *N) string {
	if s.S != "" {
		return s.S + ": "
	}
	return ""
}

func (p *printer) block(l []*N) {
	p.w("{\n")
	p.list(l)
	p.w("}")
}

func (p *printer) stmt(s *N) {
	switch s.K {
	case Expr:
		p.expr(s.X[0])
		p.w(";\n")
	case Ret:
		if len(s.X) > 0 {
			p.w("return ")
			p.expr(s.X[0])
			p.w(";\n")
		} else {
			p.w("return;\n")
		}
	case Thr:
		p.w("throw ")
		p.expr(s.X[0])
		p.w(";\n")
	case If:
		p.w("if (")
		p.expr(s.X[0])
		p.w(") ")
		p.block(s.A)
		p.w(" else ")
		p.block(s.B)
		p.w("\n")
	case Try:
		p.w("try ")
		p.block(s.A)
		if s.F&HasCatch != 0 {
			p.w(" catch (e) ")
			p.block(s.B)
		}
		if s.F&HasFinally != 0 {
			p.w(" finally ")
			p.block(s.C)
		}
		p.w("\n")
	case For:
		p.f("%sfor (let i = 0; i < %d; i++) ", lbl(s), s.I)
		p.block(s.A)
		p.w("\n")
	case While:
		p.f("{ let w = 0; %swhile (w++ < %d) ", lbl(s), s.I)
		p.block(s.A)
		p.w(" }\n")
	case DoWhile:
		p.f("{ let d = 0; %sdo ", lbl(s))
		p.block(s.A)
		p.f(" while (++d < %d); }\n", s.I)
	case ForIn:
		p.f("%sfor (let k in {x: 1, y: 2}) ", lbl(s))
		p.block(s.A)
		p.w("\n")
	case ForOf:
		p.f("%sfor (let x of ", lbl(s))
		p.expr(s.X[0])
		p.w(") ")
		p.block(s.A)
		p.w("\n")
	case Brk:
		if s.S != "" {
			p.f("break %s;\n", s.S)
		} else {
			p.w("break;\n")
		}
	case Cont:
		if s.S != "" {
			p.f("continue %s;\n", s.S)
		} else {
			p.w("continue;\n")
		}
	case Blk:
		if s.F&1 != 0 {
			p.w("{ let z = 5, gz = () => z;\n")
		} else {
			p.w("{\n")
		}
		p.list(s.A)
		p.w("}\n")
	case Lbl:
		p.f("%s: ", s.S)
		p.block(s.A)
		p.w("\n")
	case With:
		p.w("with (wo) ")
		p.block(s.A)
		p.w("\n")
	case Sw:
		p.w("switch (")
		p.expr(s.X[0])
		p.w(") {\ncase 1:\n")
		p.list(s.A)
		p.w("case 2:\n")
		p.list(s.B)
		p.w("default:\n")
		p.list(s.C)
		p.w("}\n")
	default:
		panic("genmodel: unknown statement kind " + s.K)
	}
}

func (p *printer) args(l []*N) {
	for i, a := range l {
		if i > 0 {
			p.w(", ")
		}
		p.expr(a)
	}
}

func (p *printer) tmpl(x []*N) {
	p.w("`")
	for i, s := range x {
		p.f("t%d${", i)
		p.expr(s)
		p.w("}")
	}
	p.f("t%d`", len(x))
}

func (p *printer) expr(e *N) {
	switch e.K {
	case Num:
		if e.I < 0 {
			p.f("(%d)", e.I)
		} else {
			p.f("%d", e.I)
		}
	case Str:
		p.f("%q", e.S)
	case Undef:
		p.w("undefined")
	case Var:
		p.w(e.S)
	case Yield:
		if p.async {
			p.w("(await df(")
			if len(e.X) > 0 {
				p.expr(e.X[0])
			}
			p.w("))")
			return
		}
		if len(e.X) > 0 {
			p.w("(yield ")
			p.expr(e.X[0])
			p.w(")")
		} else {
			p.w("(yield)")
		}
	case YStar:
		if p.async {
			// a library generator stands for its async twin; every other operand is awaited as it is
			if e.X[0].K == GInst {
				p.f("(await dfs(ainner%d()))", e.X[0].I)
				return
			}
			p.w("(await dfs(")
			p.expr(e.X[0])
			p.w("))")
			return
		}
		p.w("(yield* ")
		p.expr(e.X[0])
		p.w(")")
	case Await:
		p.w("(await ")
		p.expr(e.X[0])
		p.w(")")
	case Bin, Logic:
		p.w("(")
		p.expr(e.X[0])
		p.f(" %s ", e.S)
		p.expr(e.X[1])
		p.w(")")
	case Cond:
		p.w("(")
		p.expr(e.X[0])
		p.w(" ? ")
		p.expr(e.X[1])
		p.w(" : ")
		p.expr(e.X[2])
		p.w(")")
	case Asg:
		p.f("(%s = ", e.S)
		p.expr(e.X[0])
		p.w(")")
	case OpAsg:
		p.f("(%s += ", e.S)
		p.expr(e.X[0])
		p.w(")")
	case SetM:
		p.w("(")
		p.expr(e.X[0])
		p.w("[")
		p.expr(e.X[1])
		p.w("] = ")
		p.expr(e.X[2])
		p.w(")")
	case GetM:
		p.expr(e.X[0])
		p.w("[")
		p.expr(e.X[1])
		p.w("]")
	case Call:
		p.f("%s(", e.S)
		p.args(e.X)
		p.w(")")
	case MCall:
		p.expr(e.X[0])
		p.f(".%s(", e.S)
		p.args(e.X[1:])
		p.w(")")
	case New:
		p.f("(new %s(", e.S)
		p.args(e.X)
		p.w("))")
	case Spread:
		p.w("...")
		p.expr(e.X[0])
	case Arr:
		p.w("[")
		p.args(e.X)
		p.w("]")
	case Obj:
		p.w("({")
		for i := 0; i+1 < len(e.X); i += 2 {
			if i > 0 {
				p.w(", ")
			}
			if e.X[i].K == Key {
				p.w(e.X[i].S)
			} else {
				p.w("[")
				p.expr(e.X[i])
				p.w("]")
			}
			p.w(": ")
			p.expr(e.X[i+1])
		}
		p.w("})")
	case Tmpl:
		p.tmpl(e.X)
	case Tag:
		p.w("tg")
		p.tmpl(e.X)
	case DsA:
		p.w("([a = ")
		p.expr(e.X[0])
		p.w(", b = ")
		p.expr(e.X[1])
		p.w("] = ")
		p.expr(e.X[2])
		p.w(")")
	case DsO:
		p.w("({a = ")
		p.expr(e.X[0])
		p.w(", b = ")
		p.expr(e.X[1])
		p.w("} = ")
		p.expr(e.X[2])
		p.w(")")
	case DsM:
		p.w("([o[")
		p.expr(e.X[0])
		p.w("], o[")
		p.expr(e.X[1])
		p.w("]] = ")
		p.expr(e.X[2])
		p.w(")")
	case TypeOf:
		p.w("(typeof ")
		p.expr(e.X[0])
		p.w(")")
	case Not:
		p.w("(!")
		p.expr(e.X[0])
		p.w(")")
	case Args:
		p.f("arguments[%d]", e.I)
	case ArgSet:
		p.f("(arguments[%d] = ", e.I)
		p.expr(e.X[0])
		p.w(")")
	case ArgLen:
		p.w("arguments.length")
	case Self:
		p.f("self.%s(", e.S)
		p.expr(e.X[0])
		p.w(")")
	case WAsg:
		p.w("(wx = ")
		p.expr(e.X[0])
		p.w(")")
	case WGet:
		p.w("wx")
	case GInst:
		p.f("inner%d()", e.I)
	case Iter:
		p.f("mkit(%d)", e.I)
	case Prom:
		if p.async {
			p.f("dfq(%d)", e.I)
		} else {
			p.f("dfp(%d)", e.I)
		}
	default:
		panic("genmodel: unknown expression kind " + e.K)
	}
}

// Prelude is the JavaScript side of the fixed helpers. The harness supplies the native function log(string).
// str() is the canonical rendering used for every observed value; the model's Repr is its twin.
func Prelude() string {
	var sb strings.Builder
	sb.WriteString(preludeJS)
	for i := 1; i <= NInner; i++ {
		fmt.Fprintf(&sb, "function* inner%d() {\nlet a = 0;\n%s}\n", i, PrintList(Inner(i), false))
		fmt.Fprintf(&sb, "async function ainner%d() {\nlet a = 0;\n%s}\n", i, PrintList(Inner(i), true))
	}
	return sb.String()
}

const preludeJS = `
var G, self, wo = {wx: 0};
var genTag = Object.prototype.toString;
function str(v) {
	switch (typeof v) {
	case "undefined": return "undefined";
	case "number": case "boolean": return "" + v;
	case "string": return '"' + v + '"';
	case "function": return "fn";
	case "symbol": return "sym";
	}
	if (v === null) return "null";
	if (v instanceof Error) return v.name;
	if (Array.isArray(v)) { var s = "["; for (var i = 0; i < v.length; i++) s += (i ? "," : "") + str(v[i]); return s + "]"; }
	var t = genTag.call(v);
	if (t === "[object Generator]") return "gen";
	if (t === "[object Promise]") return "promise";
	var ks = Object.keys(v), r = "{";
	for (var j = 0; j < ks.length; j++) r += (j ? "," : "") + ks[j] + ":" + str(v[ks[j]]);
	return r + "}";
}
function lg(v) { log("L:" + str(v)); return v; }
function f() { var s = "f("; for (var i = 0; i < arguments.length; i++) s += (i ? "," : "") + str(arguments[i]); log(s + ")"); return arguments[0]; }
function Pt(x, y) { log("new(" + str(x) + "," + str(y) + ")"); this.x = x; this.y = y; }
function tg(s) { var r = s.join("_") + "|"; for (var i = 1; i < arguments.length; i++) r += (i > 1 ? "," : "") + str(arguments[i]); log("tg:" + r); return r; }
function mkit(fl) {
	var k = 0;
	var it = {
		next: function(v) {
			log("it.next(" + str(v) + ")"); k++;
			if (fl & 32) { try { log("reent:" + str(self.next(99))); } catch (e) { log("reent!" + str(e)); } }
			if ((fl & 64) && k === 2) return 5;
			if ((fl & 128) && k === 2) throw "itE";
			return k <= 2 ? {value: "it" + k, done: false} : {value: "itR", done: true};
		}
	};
	it[Symbol.iterator] = function() { log("it.iter"); return it; };
	if (fl & 1) it["throw"] = function(e) {
		log("it.throw(" + str(e) + ")");
		return (fl & 2) ? {value: "itTD", done: true} : {value: "itT", done: false};
	};
	if (fl & 4) it["return"] = function(v) {
		log("it.return(" + str(v) + ")");
		if (fl & 256) throw "itRE";
		if (fl & 8) return 7;
		return (fl & 16) ? {value: "itRN", done: false} : {value: [v], done: true, extra: 1};
	};
	return it;
}
function call(g, op, v) { return op === 0 ? g.next(v) : op === 1 ? g["throw"](v) : g["return"](v); }
function d1(g, op, v) { var x = 1; return call(g, op, v); }
function d2(g, op, v) { var x = 1, y = 2; return [x, y, d1(g, op, v)][2]; }
function d3(g, op, v) { let z = 3; try { return f2(z, d2(g, op, v)); } finally { z++; } }
function f2(x, y) { return y; }
function dForOf(g, op, v) { for (var t of [0, 1]) { for (var u of [2]) { return call(g, op, v); } } }
function dWith(g, op, v) { with ({r: 0}) { r = call(g, op, v); return r; } }
function* dgenF(g, op, v, box) { try { yield 0; } finally { box.r = call(g, op, v); } }
function dGenFinally(g, op, v) { var box = {}, dg = dgenF(g, op, v, box); dg.next(); dg["return"](); return box.r; }
function* dgenB(g, op, v) { var pad = [1, 2, 3]; return f2(pad, call(g, op, v)); }
function dGenBody(g, op, v) { return dgenB(g, op, v).next().value; }
function dCatch(g, op, v) { try { throw 0; } catch (e) { return call(g, op, v); } }
var ctxs = [call, d1, d2, d3, dForOf, dWith, dGenFinally, dGenBody, dCatch];
function runh(h) { start(); for (var i = 0; i < h.length; i++) log("#" + step(h[i][0], h[i][1], h[i][2])); }
var dfd = {};
function mkd() { var d = {}; d.p = new Promise(function(a, b) { d.res = a; d.rej = b; }); return d; }
function df(v) { if (typeof v === "number" && v >= 1 && v <= 3) return (dfd[v] || (dfd[v] = mkd())).p; return v; }
function dfs(v) { return v; }
function dfp(k) { return k; }
function dfq(k) { return (dfd[k] || (dfd[k] = mkd())).p; }
function ticks() { Promise.resolve().then(function() { log("t1"); }).then(function() { log("t2"); }).then(function() { log("t3"); }).then(function() { log("t4"); }); }
function settle(k, rej, v) { var d = dfd[k] || (dfd[k] = mkd()); (rej ? d.rej : d.res)(v); ticks(); }
function astart() {
	dfd = {}; wo.wx = 0; self = undefined;
	var pr = f2(0, G(7, 8)); // called with pending operands on the stack
	log("started:" + str(pr));
	pr.then(function(v) { log("F:" + str(v)); }, function(e) { log("R:" + str(e)); });
	ticks();
}
function start() { wo.wx = 0; self = G(7, 8); return self; }
function step(ci, op, v) {
	var r;
	try { r = ctxs[ci](self, op, v); } catch (e) { return "!" + str(e); }
	return str(r);
}
`

// CtxNames names the driver contexts of the prelude's step(ci, op, v), in index order. The harness adds
// the context "go" (the method is invoked directly from Go through the public API).
var CtxNames = []string{"top", "depth1", "depth2", "depth3+try", "for-of", "with", "gen-finally", "gen-body", "catch"}
