// Package mapmodel is the reference model of ECMAScript Map / Set used by check C18:
// the [[MapData]] / [[SetData]] List exactly as ECMA-262 describes it (entries are appended, deletion
// and clear() only mark entries ~empty~, the list never shrinks) plus live iterators that hold an index
// into that list (CreateMapIterator / CreateSetIterator / Map.prototype.forEach all use the same
// "index, skip empty, re-read the length each time" loop).
//
// Keys are abstract: a key is the id of its SameValueZero equivalence class (the check's key pool
// maps every concrete representation to its class), so the model contains no hashing and no value
// comparison at all.
package mapmodel

// Entry is one record of the data list.
type Entry struct {
	Class int // SameValueZero class of the key
	Rep   int // which concrete representation was stored (the first one inserted; informational)
	Val   int // value id (Map only)
	Empty bool
}

// Cursor is a live iterator: Index is the position in the data list it will examine next.
type Cursor struct {
	Kind  int
	Index int
	Done  bool
}

type Model struct {
	Entries []Entry
	Cursors []*Cursor
}

func (m *Model) find(class int) int {
	for i := range m.Entries {
		if !m.Entries[i].Empty && m.Entries[i].Class == class {
			return i
		}
	}
	return -1
}

// Set implements Map.prototype.set / Set.prototype.add. It reports whether a new entry was appended.
func (m *Model) Set(class, rep, val int) bool {
	if i := m.find(class); i >= 0 {
		m.Entries[i].Val = val
		return false
	}
	m.Entries = append(m.Entries, Entry{Class: class, Rep: rep, Val: val})
	return true
}

func (m *Model) Has(class int) bool { return m.find(class) >= 0 }

// Get returns the value id and whether the key is present.
func (m *Model) Get(class int) (int, bool) {
	if i := m.find(class); i >= 0 {
		return m.Entries[i].Val, true
	}
	return 0, false
}

func (m *Model) Delete(class int) bool {
	if i := m.find(class); i >= 0 {
		m.Entries[i].Empty = true
		return true
	}
	return false
}

func (m *Model) Clear() {
	for i := range m.Entries {
		m.Entries[i].Empty = true
	}
}

func (m *Model) Size() int {
	n := 0
	for i := range m.Entries {
		if !m.Entries[i].Empty {
			n++
		}
	}
	return n
}

// Live returns the non-empty entries in list order.
func (m *Model) Live() []Entry {
	var res []Entry
	for _, e := range m.Entries {
		if !e.Empty {
			res = append(res, e)
		}
	}
	return res
}

func (m *Model) NewCursor(kind int) *Cursor {
	c := &Cursor{Kind: kind}
	m.Cursors = append(m.Cursors, c)
	return c
}

// Drop forgets cursor i (the program stops using that iterator).
func (m *Model) Drop(i int) {
	m.Cursors = append(m.Cursors[:i:i], m.Cursors[i+1:]...)
}

// Next advances a cursor: the next non-empty entry at or after Index, or done (for good).
func (m *Model) Next(c *Cursor) (Entry, bool) {
	if c.Done {
		return Entry{}, false
	}
	for c.Index < len(m.Entries) {
		e := m.Entries[c.Index]
		c.Index++
		if !e.Empty {
			return e, true
		}
	}
	c.Done = true
	return Entry{}, false
}

// Passed is the number of live entries behind the cursor; together with Done it determines the
// cursor's whole future (the live entries ahead of it are a suffix of Live()).
func (m *Model) Passed(c *Cursor) int {
	n := 0
	for i := 0; i < c.Index && i < len(m.Entries); i++ {
		if !m.Entries[i].Empty {
			n++
		}
	}
	return n
}

// OnEmpty reports whether the entry the cursor returned last has been removed since, and how many
// consecutive removed entries lie directly behind the cursor (history tags for state keys).
func (m *Model) OnEmpty(c *Cursor) (bool, int) {
	if c.Done || c.Index == 0 {
		return false, 0
	}
	n := 0
	for i := c.Index - 1; i >= 0 && m.Entries[i].Empty; i-- {
		n++
	}
	return m.Entries[c.Index-1].Empty, n
}

func (m *Model) Clone() *Model {
	c := &Model{Entries: append([]Entry(nil), m.Entries...)}
	for _, cu := range m.Cursors {
		cc := *cu
		c.Cursors = append(c.Cursors, &cc)
	}
	return c
}
