package arrmodel

import (
	"math"
	"strconv"
	"strings"
)

// NumToString is Number::toString for the value pool used by the checks (integers, simple
// fractions, NaN, infinities, -0).
func NumToString(f float64) string {
	switch {
	case f != f:
		return "NaN"
	case math.IsInf(f, 1):
		return "Infinity"
	case math.IsInf(f, -1):
		return "-Infinity"
	case f == 0:
		return "0"
	}
	if f == math.Trunc(f) && math.Abs(f) < 1e21 {
		return strconv.FormatFloat(f, 'f', -1, 64)
	}
	return strconv.FormatFloat(f, 'g', -1, 64)
}

// FV prints a value canonically; the JavaScript harness (harness.js: FV) prints the same text.
func (w *World) FV(v Val) string {
	switch x := v.(type) {
	case Undefined:
		return "u"
	case Null:
		return "n"
	case bool:
		if x {
			return "T"
		}
		return "F"
	case float64:
		if x == 0 && math.Signbit(x) {
			return "#-0"
		}
		return "#" + NumToString(x)
	case string:
		return `"` + x + `"`
	case *Obj:
		if x == w.Subject {
			return "A"
		}
		if x == w.ArrayProto {
			return "AP"
		}
		if x.Kind == KFunction {
			return x.Tag
		}
		return w.SD(x, 0, 0)
	}
	return "?"
}

func fnTag(f *Obj) string {
	if f == nil {
		return "u"
	}
	return f.Tag
}

func (w *World) pd(sb *strings.Builder, k Key, p *Prop) {
	sb.WriteString(k.String())
	sb.WriteByte(':')
	if p.Accessor {
		sb.WriteString("G(" + fnTag(p.Get) + ")S(" + fnTag(p.Set) + ")")
	} else {
		sb.WriteString(w.FV(p.Value))
		if p.W {
			sb.WriteByte('w')
		} else {
			sb.WriteByte('-')
		}
	}
	if p.E {
		sb.WriteByte('e')
	} else {
		sb.WriteByte('-')
	}
	if p.C {
		sb.WriteByte('c')
	} else {
		sb.WriteByte('-')
	}
	sb.WriteByte(',')
}

func isFiller(k Key, p *Prop, flo, fhi uint32) bool {
	if !k.IsIdx || k.Idx < flo || k.Idx >= fhi || p.Accessor || !p.W || !p.E || !p.C {
		return false
	}
	f, ok := p.Value.(float64)
	return ok && f == float64(k.Idx)
}

// SD is the structural dump of an object: extensibility, own keys in order, full descriptors.
// Plain data properties in the filler zone [flo,fhi) whose value equals their index are only counted.
func (w *World) SD(o *Obj, flo, fhi uint32) string {
	var sb strings.Builder
	arr := IsArray(o)
	if arr {
		sb.WriteByte('[')
	} else {
		sb.WriteByte('{')
	}
	if !o.Ext {
		sb.WriteByte('!')
	}
	fill := 0
	for _, k := range o.OwnKeys() {
		p := o.GetOwn(k)
		if fhi > flo && isFiller(k, p, flo, fhi) {
			fill++
			continue
		}
		w.pd(&sb, k, p)
	}
	if fhi > flo {
		sb.WriteString("fill=" + strconv.Itoa(fill))
	}
	if arr {
		sb.WriteByte(']')
	} else {
		sb.WriteByte('}')
	}
	return sb.String()
}

// Dump is the canonical observable state of the subject: structural dump, length read through [[Get]],
// Object.keys, and for every probe key: `k in a`, hasOwnProperty, a[k] (getters run muted).
func (w *World) Dump(a *Obj, probes []Key, flo, fhi uint32) string {
	old := w.Mute
	w.Mute = true
	defer func() { w.Mute = old }()
	var sb strings.Builder
	sb.WriteString(w.SD(a, flo, fhi))
	sb.WriteString("|len=" + w.FV(w.Get(a, Key{Str: "length"}, a)))
	sb.WriteString("|K=")
	fill := 0
	for _, k := range a.OwnKeys() {
		p := a.GetOwn(k)
		if !p.E {
			continue
		}
		if fhi > flo && k.IsIdx && k.Idx >= flo && k.Idx < fhi {
			fill++
			continue
		}
		sb.WriteString(k.String())
		sb.WriteByte(',')
	}
	if fhi > flo {
		sb.WriteString("fill=" + strconv.Itoa(fill))
	}
	sb.WriteString("|P=")
	for _, k := range probes {
		if w.HasProperty(a, k) {
			sb.WriteByte('1')
		} else {
			sb.WriteByte('0')
		}
		if a.GetOwn(k) != nil {
			sb.WriteByte('1')
		} else {
			sb.WriteByte('0')
		}
		sb.WriteString(w.FV(w.Get(a, k, a)))
		sb.WriteByte(',')
	}
	return sb.String()
}

// DumpValues is the reduced dump used for host-slice subjects: length and element values only.
func (w *World) DumpValues(a *Obj) string {
	old := w.Mute
	w.Mute = true
	defer func() { w.Mute = old }()
	var sb strings.Builder
	n := ToLength(w.Get(a, Key{Str: "length"}, a))
	sb.WriteString("len=" + strconv.FormatInt(n, 10) + "|")
	for i := int64(0); i < n; i++ {
		sb.WriteString(w.FV(w.Get(a, NumKey(i), a)))
		sb.WriteByte(',')
	}
	return sb.String()
}

// Completion renders a normal or abrupt completion followed by the event log.
func (w *World) Completion(f func() Val) (res string) {
	w.Log = w.Log[:0]
	for k := range w.Cnt {
		delete(w.Cnt, k)
	}
	defer func() {
		if e := recover(); e != nil {
			t, ok := e.(*Throw)
			if !ok {
				panic(e)
			}
			if t.Kind != "" {
				res = "!" + t.Kind
			} else {
				res = "!" + w.FV(t.Val)
			}
		}
		res += " L" + strings.Join(w.Log, ";")
	}()
	return "=" + w.FV(f())
}
