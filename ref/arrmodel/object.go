// Package arrmodel is a small Go reference model of the parts of ECMA-262 that property C07 talks
// about: ordinary objects (ValidateAndApplyPropertyDescriptor, OrdinaryGet/Set/Delete/OwnPropertyKeys),
// the Array exotic object (ArrayDefineOwnProperty, ArraySetLength with the non-configurable tail),
// integrity levels, and every Array.prototype method written generically over the internal methods
// (so that array-likes and host objects work as receivers). It does not import goja. Data structures
// are deliberately boring: a map plus a sorted key list, no storage strategies, no counters.
package arrmodel

import (
	"math"
	"sort"
	"strconv"
)

type Undefined struct{}
type Null struct{}

// Val is one of Undefined{}, Null{}, bool, float64, string, *Obj.
type Val interface{}

var Undef Val = Undefined{}
var Nul Val = Null{}

// Throw is an abrupt completion. Kind is the error constructor name for engine-created errors
// ("TypeError", "RangeError"); for values thrown by user functions Kind is "" and Val is the value.
type Throw struct {
	Kind string
	Val  Val
}

func ThrowType()  { panic(&Throw{Kind: "TypeError"}) }
func ThrowRange() { panic(&Throw{Kind: "RangeError"}) }

// Key is a property key: an array index (0..2^32-2) or any other string.
type Key struct {
	IsIdx bool
	Idx   uint32
	Str   string
}

func IdxKey(i uint32) Key { return Key{IsIdx: true, Idx: i} }

// StrKey canonicalises: a canonical numeric string below 2^32-1 becomes an index key.
func StrKey(s string) Key {
	if n := len(s); n > 0 && n <= 10 && (s[0] != '0' || n == 1) {
		var v uint64
		ok := true
		for i := 0; i < n; i++ {
			c := s[i]
			if c < '0' || c > '9' {
				ok = false
				break
			}
			v = v*10 + uint64(c-'0')
		}
		if ok && v < math.MaxUint32 {
			return Key{IsIdx: true, Idx: uint32(v)}
		}
	}
	return Key{Str: s}
}

// NumKey is ToPropertyKey of a non-negative integer (as the methods do with ! ToString(F(k))).
func NumKey(k int64) Key {
	if k >= 0 && k < math.MaxUint32 {
		return Key{IsIdx: true, Idx: uint32(k)}
	}
	return Key{Str: strconv.FormatInt(k, 10)}
}

func (k Key) String() string {
	if k.IsIdx {
		return strconv.FormatUint(uint64(k.Idx), 10)
	}
	return k.Str
}

type Prop struct {
	Accessor bool
	Value    Val
	Get, Set *Obj // nil = undefined
	W, E, C  bool
}

type Tri uint8

const (
	Unset Tri = iota
	True
	False
)

func (t Tri) Bool() bool { return t == True }
func B(b bool) Tri {
	if b {
		return True
	}
	return False
}

// Desc is a Property Descriptor record with optional fields.
type Desc struct {
	HasValue, HasGet, HasSet bool
	Value                    Val
	Get, Set                 *Obj
	W, E, C                  Tri
}

func (d Desc) IsAccessor() bool { return d.HasGet || d.HasSet }
func (d Desc) IsData() bool     { return d.HasValue || d.W != Unset }
func (d Desc) IsGeneric() bool  { return !d.IsAccessor() && !d.IsData() }

type Kind uint8

const (
	KOrdinary Kind = iota
	KArray
	KFunction
	KHostSlice // documented host semantics of a wrapped Go slice (see NewHostSlice)
)

type Fn func(w *World, this Val, args []Val) Val

type Obj struct {
	Kind    Kind
	Tag     string // identity tag used when printing ("A" = subject, "fn:name", ...)
	Proto   *Obj
	Ext     bool
	idx     map[uint32]*Prop
	idxKeys []uint32 // sorted ascending
	str     map[string]*Prop
	strKeys []string // creation order
	Call    Fn
	Data    []Val // KHostSlice
}

// World is one realm plus the event log shared with user functions.
type World struct {
	ObjectProto *Obj
	ArrayProto  *Obj
	Log         []string
	Mute        bool
	Cnt         map[string]int
	Subject     *Obj
	Fns         map[string]*Obj // user functions by name (getters, setters, callbacks, comparators)
}

func NewWorld() *World {
	w := &World{Cnt: map[string]int{}, Fns: map[string]*Obj{}}
	w.ObjectProto = &Obj{Kind: KOrdinary, Tag: "OP", Ext: true}
	w.ObjectProto.init()
	w.ArrayProto = w.NewArray()
	w.ArrayProto.Proto = w.ObjectProto
	w.ArrayProto.Tag = "AP"
	return w
}

func (w *World) LogF(s string) {
	if !w.Mute {
		w.Log = append(w.Log, s)
	}
}

func (o *Obj) init() {} // maps are allocated on first insertion

func (w *World) NewObject() *Obj {
	o := &Obj{Kind: KOrdinary, Proto: w.ObjectProto, Ext: true}
	o.init()
	return o
}

func (w *World) NewArray() *Obj {
	o := &Obj{Kind: KArray, Proto: w.ArrayProto, Ext: true}
	o.init()
	o.putNew(Key{Str: "length"}, &Prop{Value: 0.0, W: true})
	return o
}

func (w *World) NewFunction(name string, f Fn) *Obj {
	o := &Obj{Kind: KFunction, Tag: "fn:" + name, Ext: true, Call: f}
	o.init()
	return o
}

// ArrayCreate(length): RangeError above 2^32-1.
func (w *World) ArrayCreate(length float64) *Obj {
	if length > 4294967295 {
		ThrowRange()
	}
	a := w.NewArray()
	a.str["length"].Value = length
	return a
}

func (w *World) ArrayFromList(vals []Val) *Obj {
	a := w.NewArray()
	for i, v := range vals {
		a.putNew(IdxKey(uint32(i)), &Prop{Value: v, W: true, E: true, C: true})
	}
	a.str["length"].Value = float64(len(vals))
	return a
}

func (o *Obj) putNew(k Key, p *Prop) {
	if k.IsIdx {
		if _, ok := o.idx[k.Idx]; !ok {
			n := len(o.idxKeys)
			if n == 0 || o.idxKeys[n-1] < k.Idx {
				o.idxKeys = append(o.idxKeys, k.Idx)
			} else {
				i := sort.Search(n, func(i int) bool { return o.idxKeys[i] >= k.Idx })
				o.idxKeys = append(o.idxKeys, 0)
				copy(o.idxKeys[i+1:], o.idxKeys[i:])
				o.idxKeys[i] = k.Idx
			}
		}
		if o.idx == nil {
			o.idx = map[uint32]*Prop{}
		}
		o.idx[k.Idx] = p
		return
	}
	if _, ok := o.str[k.Str]; !ok {
		o.strKeys = append(o.strKeys, k.Str)
	}
	if o.str == nil {
		o.str = map[string]*Prop{}
	}
	o.str[k.Str] = p
}

func (o *Obj) remove(k Key) {
	if k.IsIdx {
		if _, ok := o.idx[k.Idx]; ok {
			delete(o.idx, k.Idx)
			i := sort.Search(len(o.idxKeys), func(i int) bool { return o.idxKeys[i] >= k.Idx })
			o.idxKeys = append(o.idxKeys[:i], o.idxKeys[i+1:]...)
		}
		return
	}
	if _, ok := o.str[k.Str]; ok {
		delete(o.str, k.Str)
		for i, s := range o.strKeys {
			if s == k.Str {
				o.strKeys = append(o.strKeys[:i], o.strKeys[i+1:]...)
				break
			}
		}
	}
}

// ---- internal methods -------------------------------------------------------------------------

// GetOwn is [[GetOwnProperty]] (returns nil for undefined). For host slices a fresh record is made.
func (o *Obj) GetOwn(k Key) *Prop {
	if o.Kind == KHostSlice {
		if k.IsIdx {
			if int64(k.Idx) < int64(len(o.Data)) {
				return &Prop{Value: o.Data[k.Idx], W: true, E: true}
			}
			return nil
		}
		if k.Str == "length" {
			return &Prop{Value: float64(len(o.Data)), W: true}
		}
		return nil
	}
	if k.IsIdx {
		return o.idx[k.Idx]
	}
	return o.str[k.Str]
}

// OwnKeys is OrdinaryOwnPropertyKeys: array indices ascending, then strings in creation order.
func (o *Obj) OwnKeys() []Key {
	if o.Kind == KHostSlice {
		res := make([]Key, 0, len(o.Data)+1)
		for i := range o.Data {
			res = append(res, IdxKey(uint32(i)))
		}
		return res
	}
	res := make([]Key, 0, len(o.idxKeys)+len(o.strKeys))
	for _, i := range o.idxKeys {
		res = append(res, IdxKey(i))
	}
	for _, s := range o.strKeys {
		res = append(res, Key{Str: s})
	}
	return res
}

// IndexKeys returns the own array-index keys in ascending order (shared slice: do not modify).
func (o *Obj) IndexKeys() []uint32 { return o.idxKeys }

func SameValue(a, b Val) bool {
	switch x := a.(type) {
	case float64:
		y, ok := b.(float64)
		if !ok {
			return false
		}
		if x != x && y != y {
			return true
		}
		return x == y && math.Signbit(x) == math.Signbit(y)
	}
	return a == b
}

func SameValueZero(a, b Val) bool {
	if x, ok := a.(float64); ok {
		if y, ok := b.(float64); ok {
			return x == y || (x != x && y != y)
		}
		return false
	}
	return a == b
}

func StrictEquals(a, b Val) bool {
	if x, ok := a.(float64); ok {
		if y, ok := b.(float64); ok {
			return x == y
		}
		return false
	}
	return a == b
}

func sameFn(a, b *Obj) bool { return a == b }

// validateAndApply is ValidateAndApplyPropertyDescriptor (ES2023 10.1.6.3) with O = o.
func (o *Obj) validateAndApply(k Key, extensible bool, d Desc, cur *Prop) bool {
	if cur == nil {
		if !extensible {
			return false
		}
		p := &Prop{E: d.E.Bool(), C: d.C.Bool()}
		if d.IsAccessor() {
			p.Accessor = true
			p.Get, p.Set = d.Get, d.Set
		} else {
			p.Value = Undef
			if d.HasValue {
				p.Value = d.Value
			}
			p.W = d.W.Bool()
		}
		o.putNew(k, p)
		return true
	}
	if !cur.C {
		if d.C == True {
			return false
		}
		if d.E != Unset && d.E.Bool() != cur.E {
			return false
		}
		if !d.IsGeneric() && d.IsAccessor() != cur.Accessor {
			return false
		}
		if cur.Accessor {
			if d.HasGet && !sameFn(d.Get, cur.Get) {
				return false
			}
			if d.HasSet && !sameFn(d.Set, cur.Set) {
				return false
			}
		} else if !cur.W {
			if d.W == True {
				return false
			}
			if d.HasValue && !SameValue(d.Value, cur.Value) {
				return false
			}
		}
	}
	if !cur.Accessor && d.IsAccessor() {
		cur.Accessor = true
		cur.Value = nil
		cur.W = false
		cur.Get, cur.Set = nil, nil
		if d.HasGet {
			cur.Get = d.Get
		}
		if d.HasSet {
			cur.Set = d.Set
		}
	} else if cur.Accessor && d.IsData() {
		cur.Accessor = false
		cur.Get, cur.Set = nil, nil
		cur.Value = Undef
		if d.HasValue {
			cur.Value = d.Value
		}
		cur.W = d.W.Bool()
	} else {
		if d.HasValue {
			cur.Value = d.Value
		}
		if d.W != Unset {
			cur.W = d.W.Bool()
		}
		if d.HasGet {
			cur.Get = d.Get
		}
		if d.HasSet {
			cur.Set = d.Set
		}
	}
	if d.E != Unset {
		cur.E = d.E.Bool()
	}
	if d.C != Unset {
		cur.C = d.C.Bool()
	}
	return true
}

func (o *Obj) ordinaryDefineOwn(k Key, d Desc) bool {
	return o.validateAndApply(k, o.Ext, d, o.GetOwn(k))
}

// ToUint32 / ToNumber on the primitive values the model supports.
func ToNumber(v Val) float64 {
	switch x := v.(type) {
	case Undefined:
		return math.NaN()
	case Null:
		return 0
	case bool:
		if x {
			return 1
		}
		return 0
	case float64:
		return x
	case string:
		return stringToNumber(x)
	}
	panic("arrmodel: ToNumber of an object is not modelled")
}

func stringToNumber(s string) float64 {
	// only the plain decimal forms used by the alphabets
	if s == "" {
		return 0
	}
	f, err := strconv.ParseFloat(s, 64)
	if err != nil {
		return math.NaN()
	}
	return f
}

func ToUint32(f float64) uint32 {
	if f != f || math.IsInf(f, 0) {
		return 0
	}
	f = math.Trunc(f)
	f = math.Mod(f, 4294967296)
	if f < 0 {
		f += 4294967296
	}
	return uint32(f)
}

// arraySetLength is ArraySetLength (ES2023 10.4.2.4).
func (w *World) arraySetLength(a *Obj, d Desc) bool {
	lk := Key{Str: "length"}
	if !d.HasValue {
		return a.ordinaryDefineOwn(lk, d)
	}
	nd := d
	newLen := ToUint32(ToNumber(d.Value))
	numberLen := ToNumber(d.Value)
	if float64(newLen) != numberLen {
		ThrowRange()
	}
	nd.Value = float64(newLen)
	old := a.str["length"]
	oldLen := uint32(old.Value.(float64))
	if newLen >= oldLen {
		return a.ordinaryDefineOwn(lk, nd)
	}
	if !old.W {
		return false
	}
	newWritable := true
	if nd.W == False {
		newWritable = false
		nd.W = True
	}
	if !a.ordinaryDefineOwn(lk, nd) {
		return false
	}
	for len(a.idxKeys) > 0 {
		top := a.idxKeys[len(a.idxKeys)-1]
		if top < newLen {
			break
		}
		if !w.Delete(a, IdxKey(top)) {
			nd.Value = float64(top) + 1
			if !newWritable {
				nd.W = False
			}
			a.ordinaryDefineOwn(lk, nd)
			return false
		}
	}
	if !newWritable {
		a.ordinaryDefineOwn(lk, Desc{W: False})
	}
	return true
}

// DefineOwn is [[DefineOwnProperty]].
func (w *World) DefineOwn(o *Obj, k Key, d Desc) bool {
	switch o.Kind {
	case KArray:
		if !k.IsIdx {
			if k.Str == "length" {
				return w.arraySetLength(o, d)
			}
			return o.ordinaryDefineOwn(k, d)
		}
		lp := o.str["length"]
		length := uint32(lp.Value.(float64))
		if k.Idx >= length && !lp.W {
			return false
		}
		if !o.ordinaryDefineOwn(k, d) {
			return false
		}
		if k.Idx >= length {
			lp.Value = float64(k.Idx) + 1
		}
		return true
	case KHostSlice:
		return w.hostDefineOwn(o, k, d)
	}
	return o.ordinaryDefineOwn(k, d)
}

func (w *World) HasProperty(o *Obj, k Key) bool {
	for ; o != nil; o = o.Proto {
		if o.GetOwn(k) != nil {
			return true
		}
	}
	return false
}

func (w *World) CallFn(f *Obj, this Val, args ...Val) Val {
	if f == nil || f.Call == nil {
		ThrowType()
	}
	return f.Call(w, this, args)
}

// Get is [[Get]](k, receiver).
func (w *World) Get(o *Obj, k Key, receiver Val) Val {
	for ; o != nil; o = o.Proto {
		p := o.GetOwn(k)
		if p == nil {
			continue
		}
		if !p.Accessor {
			return p.Value
		}
		if p.Get == nil {
			return Undef
		}
		return w.CallFn(p.Get, receiver)
	}
	return Undef
}

// Set is [[Set]](k, v, receiver) (OrdinarySet; arrays and host slices only differ in DefineOwn/GetOwn).
func (w *World) Set(o *Obj, k Key, v Val, receiver Val) bool {
	var own *Prop
	for {
		own = o.GetOwn(k)
		if own != nil {
			break
		}
		if o.Proto == nil {
			own = &Prop{Value: Undef, W: true, E: true, C: true}
			break
		}
		o = o.Proto
	}
	if own.Accessor {
		if own.Set == nil {
			return false
		}
		w.CallFn(own.Set, receiver, v)
		return true
	}
	if !own.W {
		return false
	}
	r, ok := receiver.(*Obj)
	if !ok {
		return false
	}
	if r.Kind == KHostSlice && k.IsIdx {
		w.hostPut(r, k.Idx, v) // documented host semantics: an indexed write always stores (growing the slice)
		return true
	}
	if ex := r.GetOwn(k); ex != nil {
		if ex.Accessor || !ex.W {
			return false
		}
		return w.DefineOwn(r, k, Desc{HasValue: true, Value: v})
	}
	return w.DefineOwn(r, k, Desc{HasValue: true, Value: v, W: True, E: True, C: True})
}

// SetThrow is Set(O, P, V, true).
func (w *World) SetThrow(o *Obj, k Key, v Val) {
	if !w.Set(o, k, v, o) {
		ThrowType()
	}
}

func (w *World) Delete(o *Obj, k Key) bool {
	if o.Kind == KHostSlice {
		return w.hostDelete(o, k)
	}
	p := o.GetOwn(k)
	if p == nil {
		return true
	}
	if !p.C {
		return false
	}
	o.remove(k)
	return true
}

func (w *World) DeleteThrow(o *Obj, k Key) {
	if !w.Delete(o, k) {
		ThrowType()
	}
}

func (w *World) CreateDataProperty(o *Obj, k Key, v Val) bool {
	return w.DefineOwn(o, k, Desc{HasValue: true, Value: v, W: True, E: True, C: True})
}

func (w *World) CreateDataPropertyOrThrow(o *Obj, k Key, v Val) {
	if !w.CreateDataProperty(o, k, v) {
		ThrowType()
	}
}

func (w *World) DefineOrThrow(o *Obj, k Key, d Desc) {
	if !w.DefineOwn(o, k, d) {
		ThrowType()
	}
}

func (w *World) PreventExtensions(o *Obj) bool { o.Ext = false; return true }

// SetIntegrityLevel(O, level) with level "sealed" / "frozen".
func (w *World) SetIntegrityLevel(o *Obj, frozen bool) bool {
	w.PreventExtensions(o)
	keys := o.OwnKeys()
	if !frozen {
		for _, k := range keys {
			w.DefineOrThrow(o, k, Desc{C: False})
		}
		return true
	}
	for _, k := range keys {
		cur := o.GetOwn(k)
		if cur == nil {
			continue
		}
		d := Desc{C: False}
		if !cur.Accessor {
			d.W = False
		}
		w.DefineOrThrow(o, k, d)
	}
	return true
}

func (w *World) TestIntegrityLevel(o *Obj, frozen bool) bool {
	if o.Ext {
		return false
	}
	for _, k := range o.OwnKeys() {
		cur := o.GetOwn(k)
		if cur == nil {
			continue
		}
		if cur.C {
			return false
		}
		if frozen && !cur.Accessor && cur.W {
			return false
		}
	}
	return true
}

func IsArray(v Val) bool {
	o, ok := v.(*Obj)
	return ok && (o.Kind == KArray || o.Kind == KHostSlice)
}

// ---- host slice (documented semantics of a wrapped Go slice, goja.Runtime.ToValue "Slices") ----
//
// No holes: hasOwnProperty(i) <=> i < len. Deleting an index < len stores the zero value (nil -> null)
// and keeps the property. Writing at or beyond len grows the slice, the gap is nil (null). undefined
// is stored as nil (null). Reading beyond len falls through to the prototype. Only plain data
// descriptors can be defined.

func hostStore(v Val) Val {
	if _, ok := v.(Undefined); ok {
		return Nul
	}
	return v
}

func NewHostSlice(w *World, vals []Val) *Obj {
	o := &Obj{Kind: KHostSlice, Proto: w.ArrayProto, Ext: true}
	o.init()
	for _, v := range vals {
		o.Data = append(o.Data, hostStore(v))
	}
	return o
}

func (w *World) hostPut(o *Obj, i uint32, v Val) {
	for int64(len(o.Data)) <= int64(i) {
		o.Data = append(o.Data, Nul)
	}
	o.Data[i] = hostStore(v)
}

func (w *World) hostDefineOwn(o *Obj, k Key, d Desc) bool {
	if k.IsIdx {
		if d.IsAccessor() || d.W == False || d.C == True || d.E == False {
			return false
		}
		v := Undef
		if d.HasValue {
			v = d.Value
		}
		w.hostPut(o, k.Idx, v)
		return true
	}
	if k.Str == "length" {
		if d.C == True || d.E == True || d.IsAccessor() || d.W == False {
			return false
		}
		if d.HasValue {
			n := ToNumber(d.Value)
			nl := ToUint32(n)
			if float64(nl) != n {
				ThrowRange()
			}
			for uint32(len(o.Data)) < nl {
				o.Data = append(o.Data, Nul)
			}
			o.Data = o.Data[:nl]
		}
		return true
	}
	return false
}

func (w *World) hostDelete(o *Obj, k Key) bool {
	if k.IsIdx {
		if int64(k.Idx) < int64(len(o.Data)) {
			o.Data[k.Idx] = Nul
		}
		return true
	}
	return k.Str != "length"
}
