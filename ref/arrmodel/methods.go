package arrmodel

import (
	"math"
	"strings"
)

// Array.prototype algorithms (ECMA-262, 2023 edition numbering in the comments), written over the
// internal methods only, so any *Obj is a valid receiver.

const maxSafe = 9007199254740991 // 2^53-1

var lengthKey = Key{Str: "length"}

func ToIntegerOrInfinity(v Val) float64 {
	n := ToNumber(v)
	if n != n || n == 0 {
		return 0
	}
	if math.IsInf(n, 0) {
		return n
	}
	return math.Trunc(n)
}

func ToLength(v Val) int64 {
	l := ToIntegerOrInfinity(v)
	if l <= 0 {
		return 0
	}
	if l > maxSafe {
		return maxSafe
	}
	return int64(l)
}

func ToBoolean(v Val) bool {
	switch x := v.(type) {
	case Undefined, Null:
		return false
	case bool:
		return x
	case float64:
		return x == x && x != 0
	case string:
		return x != ""
	}
	return true
}

func IsCallable(v Val) bool {
	o, ok := v.(*Obj)
	return ok && o.Call != nil
}

func (w *World) LengthOfArrayLike(o *Obj) int64 { return ToLength(w.Get(o, lengthKey, o)) }

func (w *World) ToString(v Val) string {
	switch x := v.(type) {
	case Undefined:
		return "undefined"
	case Null:
		return "null"
	case bool:
		if x {
			return "true"
		}
		return "false"
	case float64:
		return NumToString(x)
	case string:
		return x
	case *Obj:
		if IsArray(x) {
			return w.Join(x, nil)
		}
		return "[object Object]"
	}
	return "?"
}

func arg(args []Val, i int) Val {
	if i < len(args) {
		return args[i]
	}
	return Undef
}

// relIdx clamps a relative index against len (the "relativeStart" pattern).
func relIdx(rel float64, l int64) int64 {
	if math.IsInf(rel, -1) {
		return 0
	}
	if rel < 0 {
		r := float64(l) + rel
		if r < 0 {
			return 0
		}
		return int64(r)
	}
	if rel > float64(l) {
		return l
	}
	return int64(rel)
}

func (w *World) arraySpeciesCreate(orig *Obj, length int64) *Obj {
	// the checks never touch "constructor"/@@species: the default constructor is always used
	return w.ArrayCreate(float64(length))
}

func (w *World) callback(args []Val) (*Obj, Val) {
	cb := arg(args, 0)
	if !IsCallable(cb) {
		ThrowType()
	}
	return cb.(*Obj), arg(args, 1)
}

func num(i int64) Val { return float64(i) }

func (w *World) At(o *Obj, args []Val) Val {
	l := w.LengthOfArrayLike(o)
	rel := ToIntegerOrInfinity(arg(args, 0))
	k := rel
	if rel < 0 {
		k = float64(l) + rel
	}
	if k < 0 || k >= float64(l) {
		return Undef
	}
	return w.Get(o, NumKey(int64(k)), o)
}

func (w *World) Concat(o *Obj, args []Val) Val {
	a := w.arraySpeciesCreate(o, 0)
	n := int64(0)
	items := append([]Val{o}, args...)
	for _, e := range items {
		eo, isObj := e.(*Obj)
		if isObj && IsArray(eo) { // @@isConcatSpreadable is never defined by the checks
			l := w.LengthOfArrayLike(eo)
			if n+l > maxSafe {
				ThrowType()
			}
			for k := int64(0); k < l; k++ {
				p := NumKey(k)
				if w.HasProperty(eo, p) {
					w.CreateDataPropertyOrThrow(a, NumKey(n), w.Get(eo, p, eo))
				}
				n++
			}
		} else {
			if n >= maxSafe {
				ThrowType()
			}
			w.CreateDataPropertyOrThrow(a, NumKey(n), e)
			n++
		}
	}
	w.SetThrow(a, lengthKey, num(n))
	return a
}

func (w *World) CopyWithin(o *Obj, args []Val) Val {
	l := w.LengthOfArrayLike(o)
	to := relIdx(ToIntegerOrInfinity(arg(args, 0)), l)
	from := relIdx(ToIntegerOrInfinity(arg(args, 1)), l)
	final := l
	if e := arg(args, 2); e != Undef {
		final = relIdx(ToIntegerOrInfinity(e), l)
	}
	count := final - from
	if l-to < count {
		count = l - to
	}
	dir := int64(1)
	if from < to && to < from+count {
		dir = -1
		from += count - 1
		to += count - 1
	}
	for count > 0 {
		fk, tk := NumKey(from), NumKey(to)
		if w.HasProperty(o, fk) {
			w.SetThrow(o, tk, w.Get(o, fk, o))
		} else {
			w.DeleteThrow(o, tk)
		}
		from += dir
		to += dir
		count--
	}
	return o
}

func (w *World) Every(o *Obj, args []Val) Val {
	l := w.LengthOfArrayLike(o)
	cb, this := w.callback(args)
	for k := int64(0); k < l; k++ {
		p := NumKey(k)
		if w.HasProperty(o, p) {
			v := w.Get(o, p, o)
			if !ToBoolean(w.CallFn(cb, this, v, num(k), o)) {
				return false
			}
		}
	}
	return true
}

func (w *World) Some(o *Obj, args []Val) Val {
	l := w.LengthOfArrayLike(o)
	cb, this := w.callback(args)
	for k := int64(0); k < l; k++ {
		p := NumKey(k)
		if w.HasProperty(o, p) {
			v := w.Get(o, p, o)
			if ToBoolean(w.CallFn(cb, this, v, num(k), o)) {
				return true
			}
		}
	}
	return false
}

func (w *World) ForEach(o *Obj, args []Val) Val {
	l := w.LengthOfArrayLike(o)
	cb, this := w.callback(args)
	for k := int64(0); k < l; k++ {
		p := NumKey(k)
		if w.HasProperty(o, p) {
			w.CallFn(cb, this, w.Get(o, p, o), num(k), o)
		}
	}
	return Undef
}

func (w *World) Map(o *Obj, args []Val) Val {
	l := w.LengthOfArrayLike(o)
	cb, this := w.callback(args)
	a := w.arraySpeciesCreate(o, l)
	for k := int64(0); k < l; k++ {
		p := NumKey(k)
		if w.HasProperty(o, p) {
			v := w.Get(o, p, o)
			w.CreateDataPropertyOrThrow(a, p, w.CallFn(cb, this, v, num(k), o))
		}
	}
	return a
}

func (w *World) Filter(o *Obj, args []Val) Val {
	l := w.LengthOfArrayLike(o)
	cb, this := w.callback(args)
	a := w.arraySpeciesCreate(o, 0)
	to := int64(0)
	for k := int64(0); k < l; k++ {
		p := NumKey(k)
		if w.HasProperty(o, p) {
			v := w.Get(o, p, o)
			if ToBoolean(w.CallFn(cb, this, v, num(k), o)) {
				w.CreateDataPropertyOrThrow(a, NumKey(to), v)
				to++
			}
		}
	}
	return a
}

func (w *World) Fill(o *Obj, args []Val) Val {
	l := w.LengthOfArrayLike(o)
	k := relIdx(ToIntegerOrInfinity(arg(args, 1)), l)
	final := l
	if e := arg(args, 2); e != Undef {
		final = relIdx(ToIntegerOrInfinity(e), l)
	}
	for ; k < final; k++ {
		w.SetThrow(o, NumKey(k), arg(args, 0))
	}
	return o
}

// FindVia implements find / findIndex / findLast / findLastIndex.
func (w *World) FindVia(o *Obj, args []Val, fromEnd, index bool) Val {
	l := w.LengthOfArrayLike(o)
	cb, this := w.callback(args)
	step := func(k int64) (Val, bool) {
		v := w.Get(o, NumKey(k), o)
		if ToBoolean(w.CallFn(cb, this, v, num(k), o)) {
			if index {
				return num(k), true
			}
			return v, true
		}
		return nil, false
	}
	if fromEnd {
		for k := l - 1; k >= 0; k-- {
			if r, ok := step(k); ok {
				return r
			}
		}
	} else {
		for k := int64(0); k < l; k++ {
			if r, ok := step(k); ok {
				return r
			}
		}
	}
	if index {
		return -1.0
	}
	return Undef
}

func (w *World) flattenIntoArray(target, source *Obj, sourceLen, start int64, depth float64, mapper *Obj, this Val) int64 {
	ti := start
	for si := int64(0); si < sourceLen; si++ {
		p := NumKey(si)
		if !w.HasProperty(source, p) {
			continue
		}
		el := w.Get(source, p, source)
		if mapper != nil {
			el = w.CallFn(mapper, this, el, num(si), source)
		}
		if depth > 0 && IsArray(el) {
			eo := el.(*Obj)
			nd := depth
			if !math.IsInf(depth, 1) {
				nd = depth - 1
			}
			ti = w.flattenIntoArray(target, eo, w.LengthOfArrayLike(eo), ti, nd, nil, nil)
		} else {
			if ti >= maxSafe {
				ThrowType()
			}
			w.CreateDataPropertyOrThrow(target, NumKey(ti), el)
			ti++
		}
	}
	return ti
}

func (w *World) Flat(o *Obj, args []Val) Val {
	l := w.LengthOfArrayLike(o)
	depth := 1.0
	if d := arg(args, 0); d != Undef {
		depth = ToIntegerOrInfinity(d)
		if depth < 0 {
			depth = 0
		}
	}
	a := w.arraySpeciesCreate(o, 0)
	w.flattenIntoArray(a, o, l, 0, depth, nil, nil)
	return a
}

func (w *World) FlatMap(o *Obj, args []Val) Val {
	l := w.LengthOfArrayLike(o)
	cb, this := w.callback(args)
	a := w.arraySpeciesCreate(o, 0)
	w.flattenIntoArray(a, o, l, 0, 1, cb, this)
	return a
}

func (w *World) Includes(o *Obj, args []Val) Val {
	l := w.LengthOfArrayLike(o)
	if l == 0 {
		return false
	}
	n := ToIntegerOrInfinity(arg(args, 1))
	if math.IsInf(n, 1) {
		return false
	}
	k := relStart(n, l)
	for ; k < l; k++ {
		if SameValueZero(w.Get(o, NumKey(k), o), arg(args, 0)) {
			return true
		}
	}
	return false
}

func relStart(n float64, l int64) int64 {
	if math.IsInf(n, -1) {
		return 0
	}
	if n >= 0 {
		if n > float64(l) {
			return l
		}
		return int64(n)
	}
	k := float64(l) + n
	if k < 0 {
		return 0
	}
	return int64(k)
}

func (w *World) IndexOf(o *Obj, args []Val) Val {
	l := w.LengthOfArrayLike(o)
	if l == 0 {
		return -1.0
	}
	n := ToIntegerOrInfinity(arg(args, 1))
	if math.IsInf(n, 1) {
		return -1.0
	}
	for k := relStart(n, l); k < l; k++ {
		p := NumKey(k)
		if w.HasProperty(o, p) && StrictEquals(arg(args, 0), w.Get(o, p, o)) {
			return num(k)
		}
	}
	return -1.0
}

func (w *World) LastIndexOf(o *Obj, args []Val) Val {
	l := w.LengthOfArrayLike(o)
	if l == 0 {
		return -1.0
	}
	n := float64(l - 1)
	if len(args) > 1 {
		n = ToIntegerOrInfinity(args[1])
	}
	if math.IsInf(n, -1) {
		return -1.0
	}
	var k int64
	if n >= 0 {
		k = l - 1
		if n < float64(k) {
			k = int64(n)
		}
	} else {
		kf := float64(l) + n
		if kf < 0 {
			return -1.0
		}
		k = int64(kf)
	}
	for ; k >= 0; k-- {
		p := NumKey(k)
		if w.HasProperty(o, p) && StrictEquals(arg(args, 0), w.Get(o, p, o)) {
			return num(k)
		}
	}
	return -1.0
}

// Join with args == nil means separator undefined.
func (w *World) Join(o *Obj, args []Val) string {
	l := w.LengthOfArrayLike(o)
	sep := ","
	if s := arg(args, 0); s != Undef {
		sep = w.ToString(s)
	}
	var sb strings.Builder
	for k := int64(0); k < l; k++ {
		if k > 0 {
			sb.WriteString(sep)
		}
		el := w.Get(o, NumKey(k), o)
		if el != Undef && el != Nul {
			sb.WriteString(w.ToString(el))
		}
	}
	return sb.String()
}

func (w *World) ToLocaleString(o *Obj) string {
	l := w.LengthOfArrayLike(o)
	var sb strings.Builder
	for k := int64(0); k < l; k++ {
		if k > 0 {
			sb.WriteString(",")
		}
		el := w.Get(o, NumKey(k), o)
		if el != Undef && el != Nul {
			if eo, ok := el.(*Obj); ok && IsArray(eo) {
				sb.WriteString(w.ToLocaleString(eo))
			} else {
				sb.WriteString(w.ToString(el))
			}
		}
	}
	return sb.String()
}

func (w *World) Pop(o *Obj) Val {
	l := w.LengthOfArrayLike(o)
	if l == 0 {
		w.SetThrow(o, lengthKey, 0.0)
		return Undef
	}
	p := NumKey(l - 1)
	el := w.Get(o, p, o)
	w.DeleteThrow(o, p)
	w.SetThrow(o, lengthKey, num(l-1))
	return el
}

func (w *World) Push(o *Obj, args []Val) Val {
	l := w.LengthOfArrayLike(o)
	if l+int64(len(args)) > maxSafe {
		ThrowType()
	}
	for _, e := range args {
		w.SetThrow(o, NumKey(l), e)
		l++
	}
	w.SetThrow(o, lengthKey, num(l))
	return num(l)
}

func (w *World) Reduce(o *Obj, args []Val, right bool) Val {
	l := w.LengthOfArrayLike(o)
	cb, _ := w.callback(args)
	if l == 0 && len(args) < 2 {
		ThrowType()
	}
	var acc Val
	k, end, d := int64(0), l, int64(1)
	if right {
		k, end, d = l-1, -1, -1
	}
	if len(args) >= 2 {
		acc = args[1]
	} else {
		found := false
		for !found && k != end {
			p := NumKey(k)
			if found = w.HasProperty(o, p); found {
				acc = w.Get(o, p, o)
			}
			k += d
		}
		if !found {
			ThrowType()
		}
	}
	for ; k != end; k += d {
		p := NumKey(k)
		if w.HasProperty(o, p) {
			v := w.Get(o, p, o)
			acc = w.CallFn(cb, Undef, acc, v, num(k), o)
		}
	}
	return acc
}

func (w *World) Reverse(o *Obj) Val {
	l := w.LengthOfArrayLike(o)
	middle := l / 2
	for lower := int64(0); lower != middle; lower++ {
		upper := l - lower - 1
		lp, up := NumKey(lower), NumKey(upper)
		var lv, uv Val
		le := w.HasProperty(o, lp)
		if le {
			lv = w.Get(o, lp, o)
		}
		ue := w.HasProperty(o, up)
		if ue {
			uv = w.Get(o, up, o)
		}
		switch {
		case le && ue:
			w.SetThrow(o, lp, uv)
			w.SetThrow(o, up, lv)
		case !le && ue:
			w.SetThrow(o, lp, uv)
			w.DeleteThrow(o, up)
		case le && !ue:
			w.DeleteThrow(o, lp)
			w.SetThrow(o, up, lv)
		}
	}
	return o
}

func (w *World) Shift(o *Obj) Val {
	l := w.LengthOfArrayLike(o)
	if l == 0 {
		w.SetThrow(o, lengthKey, 0.0)
		return Undef
	}
	first := w.Get(o, NumKey(0), o)
	for k := int64(1); k < l; k++ {
		from, to := NumKey(k), NumKey(k-1)
		if w.HasProperty(o, from) {
			w.SetThrow(o, to, w.Get(o, from, o))
		} else {
			w.DeleteThrow(o, to)
		}
	}
	w.DeleteThrow(o, NumKey(l-1))
	w.SetThrow(o, lengthKey, num(l-1))
	return first
}

func (w *World) Slice(o *Obj, args []Val) Val {
	l := w.LengthOfArrayLike(o)
	k := relIdx(ToIntegerOrInfinity(arg(args, 0)), l)
	final := l
	if e := arg(args, 1); e != Undef {
		final = relIdx(ToIntegerOrInfinity(e), l)
	}
	count := final - k
	if count < 0 {
		count = 0
	}
	a := w.arraySpeciesCreate(o, count)
	n := int64(0)
	for ; k < final; k++ {
		p := NumKey(k)
		if w.HasProperty(o, p) {
			w.CreateDataPropertyOrThrow(a, NumKey(n), w.Get(o, p, o))
		}
		n++
	}
	w.SetThrow(a, lengthKey, num(n))
	return a
}

func (w *World) spliceCounts(l int64, args []Val) (start, del, items int64) {
	start = relIdx(ToIntegerOrInfinity(arg(args, 0)), l)
	switch len(args) {
	case 0:
	case 1:
		del = l - start
	default:
		dc := ToIntegerOrInfinity(args[1])
		if dc < 0 {
			dc = 0
		}
		if dc > float64(l-start) {
			dc = float64(l - start)
		}
		del = int64(dc)
		items = int64(len(args) - 2)
	}
	return
}

func (w *World) Splice(o *Obj, args []Val) Val {
	l := w.LengthOfArrayLike(o)
	start, del, ic := w.spliceCounts(l, args)
	if l+ic-del > maxSafe {
		ThrowType()
	}
	a := w.arraySpeciesCreate(o, del)
	for k := int64(0); k < del; k++ {
		from := NumKey(start + k)
		if w.HasProperty(o, from) {
			w.CreateDataPropertyOrThrow(a, NumKey(k), w.Get(o, from, o))
		}
	}
	w.SetThrow(a, lengthKey, num(del))
	if ic < del {
		for k := start; k < l-del; k++ {
			from, to := NumKey(k+del), NumKey(k+ic)
			if w.HasProperty(o, from) {
				w.SetThrow(o, to, w.Get(o, from, o))
			} else {
				w.DeleteThrow(o, to)
			}
		}
		for k := l; k > l-del+ic; k-- {
			w.DeleteThrow(o, NumKey(k-1))
		}
	} else if ic > del {
		for k := l - del; k > start; k-- {
			from, to := NumKey(k+del-1), NumKey(k+ic-1)
			if w.HasProperty(o, from) {
				w.SetThrow(o, to, w.Get(o, from, o))
			} else {
				w.DeleteThrow(o, to)
			}
		}
	}
	if len(args) > 2 {
		for i, e := range args[2:] {
			w.SetThrow(o, NumKey(start+int64(i)), e)
		}
	}
	w.SetThrow(o, lengthKey, num(l-del+ic))
	return a
}

func (w *World) ToSpliced(o *Obj, args []Val) Val {
	l := w.LengthOfArrayLike(o)
	start, skip, ic := w.spliceCounts(l, args)
	newLen := l + ic - skip
	if newLen > maxSafe {
		ThrowType()
	}
	a := w.ArrayCreate(float64(newLen))
	i := int64(0)
	r := start + skip
	for ; i < start; i++ {
		w.CreateDataPropertyOrThrow(a, NumKey(i), w.Get(o, NumKey(i), o))
	}
	if len(args) > 2 {
		for _, e := range args[2:] {
			w.CreateDataPropertyOrThrow(a, NumKey(i), e)
			i++
		}
	}
	for ; i < newLen; i++ {
		w.CreateDataPropertyOrThrow(a, NumKey(i), w.Get(o, NumKey(r), o))
		r++
	}
	return a
}

func (w *World) ToReversed(o *Obj) Val {
	l := w.LengthOfArrayLike(o)
	a := w.ArrayCreate(float64(l))
	for k := int64(0); k < l; k++ {
		w.CreateDataPropertyOrThrow(a, NumKey(k), w.Get(o, NumKey(l-k-1), o))
	}
	return a
}

func (w *World) With(o *Obj, args []Val) Val {
	l := w.LengthOfArrayLike(o)
	rel := ToIntegerOrInfinity(arg(args, 0))
	ai := rel
	if rel < 0 {
		ai = float64(l) + rel
	}
	if ai >= float64(l) || ai < 0 {
		ThrowRange()
	}
	a := w.ArrayCreate(float64(l))
	for k := int64(0); k < l; k++ {
		var v Val
		if k == int64(ai) {
			v = arg(args, 1)
		} else {
			v = w.Get(o, NumKey(k), o)
		}
		w.CreateDataPropertyOrThrow(a, NumKey(k), v)
	}
	return a
}

func (w *World) Unshift(o *Obj, args []Val) Val {
	l := w.LengthOfArrayLike(o)
	ac := int64(len(args))
	if ac > 0 {
		if l+ac > maxSafe {
			ThrowType()
		}
		for k := l; k > 0; k-- {
			from, to := NumKey(k-1), NumKey(k+ac-1)
			if w.HasProperty(o, from) {
				w.SetThrow(o, to, w.Get(o, from, o))
			} else {
				w.DeleteThrow(o, to)
			}
		}
		for j, e := range args {
			w.SetThrow(o, NumKey(int64(j)), e)
		}
	}
	w.SetThrow(o, lengthKey, num(l+ac))
	return num(l + ac)
}

// ---- sorting -----------------------------------------------------------------------------------

// sortCompare is SortCompare (23.1.3.30.2).
func (w *World) sortCompare(cmp *Obj, x, y Val) float64 {
	if x == Undef && y == Undef {
		return 0
	}
	if x == Undef {
		return 1
	}
	if y == Undef {
		return -1
	}
	if cmp != nil {
		v := ToNumber(w.CallFn(cmp, Undef, x, y))
		if v != v {
			return 0
		}
		return v
	}
	xs, ys := w.ToString(x), w.ToString(y)
	if xs < ys {
		return -1
	}
	if ys < xs {
		return 1
	}
	return 0
}

// sortIndexedProperties collects and sorts with a stable insertion sort: for a consistent comparator
// the result is the unique stable order, which is what the property demands.
func (w *World) sortIndexedProperties(o *Obj, l int64, cmp *Obj, skipHoles bool) []Val {
	var items []Val
	for k := int64(0); k < l; k++ {
		p := NumKey(k)
		if !skipHoles || w.HasProperty(o, p) {
			items = append(items, w.Get(o, p, o))
		}
	}
	for i := 1; i < len(items); i++ {
		for j := i; j > 0 && w.sortCompare(cmp, items[j-1], items[j]) > 0; j-- {
			items[j-1], items[j] = items[j], items[j-1]
		}
	}
	return items
}

func sortComparator(args []Val) *Obj {
	c := arg(args, 0)
	if c == Undef {
		return nil
	}
	if !IsCallable(c) {
		ThrowType()
	}
	return c.(*Obj)
}

func (w *World) Sort(o *Obj, args []Val) Val {
	cmp := sortComparator(args)
	l := w.LengthOfArrayLike(o)
	sorted := w.sortIndexedProperties(o, l, cmp, true)
	j := int64(0)
	for ; j < int64(len(sorted)); j++ {
		w.SetThrow(o, NumKey(j), sorted[j])
	}
	for ; j < l; j++ {
		w.DeleteThrow(o, NumKey(j))
	}
	return o
}

func (w *World) ToSorted(o *Obj, args []Val) Val {
	cmp := sortComparator(args)
	l := w.LengthOfArrayLike(o)
	a := w.ArrayCreate(float64(l))
	sorted := w.sortIndexedProperties(o, l, cmp, false)
	for j, v := range sorted {
		w.CreateDataPropertyOrThrow(a, NumKey(int64(j)), v)
	}
	return a
}

// ---- iteration ---------------------------------------------------------------------------------

// IterateArray drives %ArrayIteratorPrototype%.next to exhaustion (length re-read on every step).
// kind: 0 keys, 1 values, 2 entries.
func (w *World) IterateArray(o *Obj, kind int, each func(Val)) {
	for i := int64(0); ; i++ {
		if i >= w.LengthOfArrayLike(o) {
			return
		}
		switch kind {
		case 0:
			each(num(i))
		case 1:
			each(w.Get(o, NumKey(i), o))
		default:
			each(w.ArrayFromList([]Val{num(i), w.Get(o, NumKey(i), o)}))
		}
	}
}

// SpreadVia is `[...o.keys()]` / `[...o.values()]` / `[...o.entries()]`.
func (w *World) SpreadVia(o *Obj, kind int) Val {
	a := w.NewArray()
	n := int64(0)
	w.IterateArray(o, kind, func(v Val) {
		w.CreateDataPropertyOrThrow(a, NumKey(n), v)
		n++
	})
	return a
}

// ArrayFrom is Array.from(items) without a mapper, called on %Array%. iterable tells whether
// items has @@iterator (arrays and host slices inherit Array.prototype.values).
func (w *World) ArrayFrom(o *Obj, iterable bool) Val {
	if iterable {
		a := w.NewArray()
		n := int64(0)
		w.IterateArray(o, 1, func(v Val) {
			w.CreateDataPropertyOrThrow(a, NumKey(n), v)
			n++
		})
		w.SetThrow(a, lengthKey, num(n))
		return a
	}
	l := w.LengthOfArrayLike(o)
	a := w.ArrayCreate(float64(l))
	for k := int64(0); k < l; k++ {
		w.CreateDataPropertyOrThrow(a, NumKey(k), w.Get(o, NumKey(k), o))
	}
	w.SetThrow(a, lengthKey, num(l))
	return a
}
