package irjs

import (
	"github.com/dop251/goja"
)

type fkind uint8

const (
	fkNormal  fkind = iota // function declaration / expression: callable and constructor
	fkArrow                // lexical this / arguments / new.target
	fkMethod               // method, getter, setter: not a constructor, has a home object
	fkCtor                 // base class constructor
	fkDerived              // derived class constructor
)

// Closure is a function object created by the interpreted program. obj is the engine-side wrapper that makes
// it callable from engine code (valueOf / toString / getters / setters / iterator methods).
type Closure struct {
	node   *Node
	params *Node
	body   []*Node
	expr   *Node // expression body of (arrowe ...)
	env    *Env
	kind   fkind
	strict bool
	home   *goja.Object
	obj    *goja.Object
	name   string
	fields []*fieldDef // instance fields (class constructors)
}

type fieldDef struct {
	key  goja.Value
	init *Node
	env  *Env
	home *goja.Object
}

type argsMap struct {
	bind []*Binding // index -> aliased parameter binding (nil: unmapped)
}

var emptyParams = N("params")

// makeClosure builds the closure for a function-like node:
// (fdecl name params S...) (func name params S...) (arrow params S...) (arrowe params E)
// (method key params S...) (get key S...) (set key P S...) (ctor params S...)
func (in *Interp) makeClosure(n *Node, env *Env, kind fkind, strict bool, name string) *Closure {
	cl := &Closure{node: n, env: env, kind: kind, strict: strict, name: name}
	switch n.Op {
	case "fdecl", "func":
		cl.params, cl.body = n.Kids[1], n.Kids[2:]
	case "arrow":
		cl.params, cl.body = n.Kids[0], n.Kids[1:]
	case "arrowe":
		cl.params, cl.expr = n.Kids[0], n.Kids[1]
	case "method", "smethod":
		cl.params, cl.body = n.Kids[1], n.Kids[2:]
	case "get", "sget":
		cl.params, cl.body = emptyParams, n.Kids[1:]
	case "set", "sset":
		cl.params, cl.body = N("params", n.Kids[1]), n.Kids[2:]
	case "ctor":
		cl.params, cl.body = n.Kids[0], n.Kids[1:]
	case "defaultctor":
		cl.params = emptyParams
	default:
		unsupported("function node " + n.Op)
	}
	if !cl.strict && hasUseStrict(cl.body) {
		cl.strict = true
	}
	fv := in.rt.ToValue(func(call goja.FunctionCall) goja.Value {
		return in.callFromHost(cl, call.This, call.Arguments)
	})
	cl.obj = fv.(*goja.Object)
	in.closures[cl.obj] = cl
	if kind == fkNormal {
		proto := in.rt.NewObject()
		in.prim("defData", proto, in.str("constructor"), cl.obj, in.vFalse)
		in.prim("defData", cl.obj, in.str("prototype"), proto, in.vFalse)
	}
	return cl
}

// callFromHost is the entry point used when engine code ([[Get]] of an accessor, ToPrimitive inside a builtin,
// an iterator protocol step driven by a builtin) calls an interpreted function.
func (in *Interp) callFromHost(cl *Closure, this goja.Value, args []goja.Value) (ret goja.Value) {
	defer func() {
		if x := recover(); x != nil {
			if t, ok := x.(*jsThrow); ok {
				panic(t.v)
			}
			panic(x)
		}
	}()
	return in.callClosure(cl, this, args)
}

// call is [[Call]].
func (in *Interp) call(f goja.Value, this goja.Value, args []goja.Value) goja.Value {
	fo, ok := f.(*goja.Object)
	if !ok {
		in.throwType("not a function")
	}
	if cl := in.closures[fo]; cl != nil {
		return in.callClosure(cl, this, args)
	}
	c, ok := goja.AssertFunction(fo)
	if !ok {
		in.throwType("not a function")
	}
	in.enter()
	v, err := c(this, args...)
	in.leave()
	if err != nil {
		in.convertErr(err)
	}
	return v
}

func (in *Interp) callClosure(cl *Closure, this goja.Value, args []goja.Value) goja.Value {
	if cl.kind == fkCtor || cl.kind == fkDerived {
		in.throwType("Class constructor cannot be invoked without 'new'")
	}
	in.enter()
	defer in.leave()
	env := in.prepareCall(cl, goja.Undefined())
	if cl.kind != fkArrow {
		in.bindThis(cl, env.fn, this)
	}
	return in.runBody(cl, env, args)
}

func (in *Interp) enter() {
	in.depth++
	if in.depth > in.MaxDepth {
		panic(abortSignal{"depth"})
	}
}

func (in *Interp) leave() { in.depth-- }

func (in *Interp) prepareCall(cl *Closure, newTarget goja.Value) *Env {
	env := newEnv(cl.env)
	env.strict = cl.strict
	if cl.kind != fkArrow {
		env.fn = &funcCtx{cl: cl, newTarget: newTarget}
	}
	return env
}

// bindThis is OrdinaryCallBindThis.
func (in *Interp) bindThis(cl *Closure, fc *funcCtx, this goja.Value) {
	if !cl.strict {
		if this == nil || goja.IsUndefined(this) || goja.IsNull(this) {
			this = in.globalObj
		} else if !isObject(this) {
			this = in.prim("toObj", this)
		}
	} else if this == nil {
		this = goja.Undefined()
	}
	fc.thisVal, fc.thisInit = this, true
}

// runBody performs FunctionDeclarationInstantiation and evaluates the body.
func (in *Interp) runBody(cl *Closure, env *Env, args []goja.Value) goja.Value {
	bodyEnv := in.functionDeclarationInstantiation(cl, env, args)
	if cl.expr != nil {
		return in.evalExpr(cl.expr, bodyEnv)
	}
	c := in.evalStmtList(cl.body, bodyEnv)
	if c.t == cReturn {
		return c.v
	}
	if c.t != cNormal {
		unsupported("break/continue escaping a function")
	}
	return goja.Undefined()
}

func paramInfo(params *Node) (names []string, simple, hasExpr bool) {
	simple = true
	for _, p := range params.Kids {
		if !p.Atom {
			simple = false
		}
		names = BoundNames(p, names)
		if containsExpr(p) {
			hasExpr = true
		}
	}
	return
}

// containsExpr: does a parameter contain an initialiser (ContainsExpression)?
func containsExpr(p *Node) bool {
	found := false
	p.Walk(func(n *Node) bool {
		if n.Is("def") {
			found = true
		}
		if (n.Is("p") && len(n.Kids) > 2 && !n.Kids[2].IsNone()) || (n.Is("ps") && len(n.Kids) > 1 && !n.Kids[1].IsNone()) {
			found = true
		}
		return !found
	})
	return found
}

func (in *Interp) functionDeclarationInstantiation(cl *Closure, env *Env, args []goja.Value) *Env {
	strict := cl.strict
	paramNames, simple, hasParamExpr := paramInfo(cl.params)
	hasDuplicates := false
	for i, n := range paramNames {
		if contains(paramNames[:i], n) {
			hasDuplicates = true
		}
	}
	var vs varScan
	vs.stmts(cl.body, true)
	lex := lexDecls(cl.body, false)
	var lexNames []string
	for _, d := range lex {
		if d.Op == "classdecl" {
			lexNames = append(lexNames, d.Kids[0].Op)
		} else {
			lexNames = BoundNames(d.Kids[0], lexNames)
		}
	}
	var functionNames []string
	var fns []*Node
	for i := len(vs.funcs) - 1; i >= 0; i-- {
		f := vs.funcs[i]
		if !contains(functionNames, f.Kids[0].Op) {
			functionNames = append(functionNames, f.Kids[0].Op)
			fns = append([]*Node{f}, fns...)
		}
	}
	varNames := append([]string(nil), vs.varNames...)
	for _, f := range vs.funcs {
		varNames = append(varNames, f.Kids[0].Op)
	}
	argumentsObjectNeeded := true
	switch {
	case cl.kind == fkArrow:
		argumentsObjectNeeded = false
	case contains(paramNames, "arguments"):
		argumentsObjectNeeded = false
	case !hasParamExpr && (contains(functionNames, "arguments") || contains(lexNames, "arguments")):
		argumentsObjectNeeded = false
	}
	for _, n := range paramNames {
		if env.own(n) == nil {
			b := env.create(n, true, false)
			if hasDuplicates {
				b.val, b.init = goja.Undefined(), true
			}
		}
	}
	parameterBindings := paramNames
	if argumentsObjectNeeded {
		ao := in.prim("mkArgs", args...).(*goja.Object)
		var b *Binding
		if strict {
			b = env.create("arguments", false, false)
		} else {
			b = env.create("arguments", true, false)
		}
		b.val, b.init = ao, true
		parameterBindings = append(append([]string(nil), paramNames...), "arguments")
		if !strict && simple {
			// mapped arguments object: index i aliases the LAST parameter with that name
			m := &argsMap{bind: make([]*Binding, len(args))}
			mapped := []string{}
			for i := len(paramNames) - 1; i >= 0; i-- {
				n := paramNames[i]
				if contains(mapped, n) {
					continue
				}
				mapped = append(mapped, n)
				if i < len(args) {
					pb := env.own(n)
					pb.alias = &argAlias{obj: ao, idx: i, on: true}
					m.bind[i] = pb
				}
			}
			if in.argsMaps == nil {
				in.argsMaps = map[*goja.Object]*argsMap{}
			}
			in.argsMaps[ao] = m
		}
	}
	// IteratorBindingInitialization of the formals
	for i, p := range cl.params.Kids {
		tn, def := p, (*Node)(nil)
		switch {
		case p.Is("def"):
			tn, def = p.Kids[0], p.Kids[1]
		case p.Is("rest"):
			arr := in.prim("arr").(*goja.Object)
			for j := i; j < len(args); j++ {
				in.prim("defData", arr, in.rt.ToValue(j-i), args[j], in.vTrue)
			}
			in.bindParam(p.Kids[0], arr, env, hasDuplicates)
			continue
		}
		var v goja.Value = goja.Undefined()
		if i < len(args) {
			v = args[i]
		}
		if def != nil && goja.IsUndefined(v) {
			v = in.evalExpr(def, env)
		}
		in.bindParam(tn, v, env, hasDuplicates)
	}
	varEnv := env
	if !hasParamExpr {
		instantiated := append([]string(nil), parameterBindings...)
		for _, n := range varNames {
			if !contains(instantiated, n) {
				instantiated = append(instantiated, n)
				env.createInit(n, goja.Undefined())
			}
		}
	} else {
		varEnv = newEnv(env)
		var instantiated []string
		for _, n := range varNames {
			if contains(instantiated, n) {
				continue
			}
			instantiated = append(instantiated, n)
			var iv goja.Value = goja.Undefined()
			if contains(parameterBindings, n) && !contains(functionNames, n) {
				iv = in.getValue(Ref{kind: rEnv, name: n, b: env.own(n)})
			}
			varEnv.createInit(n, iv)
		}
	}
	if !strict {
		in.annexBHoist(vs.blockFns, cl.body, varEnv, parameterBindings)
	}
	lexEnv := varEnv
	if !strict {
		lexEnv = newEnv(varEnv)
	}
	in.instantiateLex(lex, lexEnv)
	for _, f := range fns {
		fo := in.instantiateFunctionDecl(f, lexEnv)
		b := varEnv.own(f.Kids[0].Op)
		// SetMutableBinding: a parameter of the same name that is mapped by the arguments object changes with it
		in.putValue(Ref{kind: rEnv, name: f.Kids[0].Op, b: b}, fo, lexEnv)
		b.init = true
	}
	return lexEnv
}

func (in *Interp) bindParam(t *Node, v goja.Value, env *Env, hasDuplicates bool) {
	if hasDuplicates {
		in.bindingInit(t, v, nil, env)
		return
	}
	in.bindingInit(t, v, env, env)
}

func (in *Interp) instantiateFunctionDecl(f *Node, env *Env) goja.Value {
	return in.makeClosure(f, env, fkNormal, env.strict, f.Kids[0].Op).obj
}

func (in *Interp) functionExpression(n *Node, env *Env) goja.Value {
	if n.Kids[0].IsNone() {
		return in.makeClosure(n, env, fkNormal, env.strict, "").obj
	}
	name := n.Kids[0].Op
	fenv := newEnv(env)
	b := fenv.create(name, false, false)
	cl := in.makeClosure(n, fenv, fkNormal, env.strict, name)
	b.val, b.init = cl.obj, true
	return cl.obj
}

// ---------- construct ----------

func (in *Interp) isConstructor(f goja.Value) bool {
	fo, ok := f.(*goja.Object)
	if !ok {
		return false
	}
	if cl := in.closures[fo]; cl != nil {
		return cl.kind == fkNormal || cl.kind == fkCtor || cl.kind == fkDerived
	}
	return in.prim("isCtor", fo).ToBoolean()
}

// construct is [[Construct]](args, newTarget); newTarget == nil means the constructor itself.
func (in *Interp) construct(f goja.Value, args []goja.Value, newTarget goja.Value) goja.Value {
	if !in.isConstructor(f) {
		in.throwType("Value is not a constructor")
	}
	fo := f.(*goja.Object)
	if newTarget == nil {
		newTarget = fo
	}
	cl := in.closures[fo]
	if cl == nil {
		if newTarget == goja.Value(fo) {
			arr := in.prim("arr").(*goja.Object)
			for i, a := range args {
				in.prim("defData", arr, in.rt.ToValue(i), a, in.vTrue)
			}
			return in.prim("construct", fo, arr)
		}
		arr := in.prim("arr").(*goja.Object)
		for i, a := range args {
			in.prim("defData", arr, in.rt.ToValue(i), a, in.vTrue)
		}
		return in.prim("rconstruct", fo, arr, newTarget)
	}
	in.enter()
	defer in.leave()
	env := in.prepareCall(cl, newTarget)
	fc := env.fn
	var thisArg goja.Value
	if cl.kind != fkDerived {
		proto := in.getV(newTarget, in.str("prototype"))
		if !isObject(proto) {
			proto = in.objProto
		}
		thisArg = in.prim("create", proto)
		fc.thisVal, fc.thisInit = thisArg, true
		if cl.kind == fkCtor {
			in.initFields(thisArg, cl)
		}
	}
	var result goja.Value
	if cl.node.Op == "defaultctor" {
		// default constructors: base: empty; derived: constructor(...args){ super(...args) }
		if cl.kind == fkDerived {
			in.superCall(env, args)
		}
		result = goja.Undefined()
	} else {
		result = in.runBody(cl, env, args)
	}
	if isObject(result) {
		return result
	}
	if cl.kind != fkDerived {
		return thisArg
	}
	if !goja.IsUndefined(result) {
		in.throwType("Derived constructors may only return object or undefined")
	}
	if !fc.thisInit {
		in.throwRef("Must call super constructor in derived class before accessing 'this' or returning from derived constructor")
	}
	return fc.thisVal
}

func (in *Interp) initFields(obj goja.Value, cl *Closure) {
	for _, f := range cl.fields {
		var v goja.Value = goja.Undefined()
		if f.init != nil {
			fenv := newEnv(f.env)
			fenv.strict = true
			fenv.fn = &funcCtx{cl: &Closure{kind: fkMethod, home: f.home, strict: true}, thisVal: obj, thisInit: true, newTarget: goja.Undefined()}
			v = in.evalExpr(f.init, fenv)
		}
		in.prim("defData", obj, f.key, v, in.vTrue)
	}
}

// evalSuperCall: SuperCall : super Arguments
func (in *Interp) evalSuperCall(n *Node, env *Env) goja.Value {
	fc := in.funcCtxOf(env)
	if fc == nil || fc.cl.kind != fkDerived {
		unsupported("super call outside derived constructor")
	}
	parent := in.prim("getProto", fc.cl.obj)
	args := in.evalArgs(n.Kids, env)
	if !in.isConstructor(parent) {
		in.throwType("Super constructor is not a constructor")
	}
	return in.finishSuperCall(fc, parent, args)
}

func (in *Interp) superCall(env *Env, args []goja.Value) goja.Value {
	fc := env.fn
	parent := in.prim("getProto", fc.cl.obj)
	if !in.isConstructor(parent) {
		in.throwType("Super constructor is not a constructor")
	}
	return in.finishSuperCall(fc, parent, args)
}

func (in *Interp) finishSuperCall(fc *funcCtx, parent goja.Value, args []goja.Value) goja.Value {
	result := in.construct(parent, args, fc.newTarget)
	if fc.thisInit {
		in.throwRef("Super constructor may only be called once")
	}
	fc.thisVal, fc.thisInit = result, true
	in.initFields(result, fc.cl)
	return result
}

// ---------- classes ----------

// classDefinition is ClassDefinitionEvaluation for (classdecl name H M...) / (class name|_ H M...).
func (in *Interp) classDefinition(n *Node, env *Env, bindingName string) goja.Value {
	cenv := newEnv(env)
	cenv.strict = true
	var nameBinding *Binding
	if !n.Kids[0].IsNone() {
		nameBinding = cenv.create(n.Kids[0].Op, false, true)
	}
	var protoParent goja.Value = in.objProto
	var ctorParent goja.Value = in.funcProto
	derived := false
	if h := n.Kids[1]; !h.IsNone() {
		derived = true
		sc := in.evalExpr(h, cenv)
		switch {
		case goja.IsNull(sc):
			protoParent = goja.Null()
		case !in.isConstructor(sc):
			in.throwType("Class extends value is not a constructor or null")
		default:
			pp := in.getV(sc, in.str("prototype"))
			if !isObject(pp) && !goja.IsNull(pp) {
				in.throwType("Class extends value does not have valid prototype property")
			}
			protoParent = pp
			ctorParent = sc
		}
	}
	proto := in.prim("create", protoParent).(*goja.Object)
	var ctorNode *Node
	for _, m := range n.Kids[2:] {
		if m.Is("ctor") {
			ctorNode = m
		}
	}
	kind := fkCtor
	if derived {
		kind = fkDerived
	}
	if ctorNode == nil {
		ctorNode = N("defaultctor")
	}
	F := in.makeClosure(ctorNode, cenv, kind, true, bindingName)
	F.home = proto
	in.prim("setProto", F.obj, ctorParent)
	in.prim("defProtoProp", F.obj, proto)
	in.prim("defData", proto, in.str("constructor"), F.obj, in.vFalse)
	type staticField struct {
		key  goja.Value
		init *Node
	}
	var statics []staticField
	for _, m := range n.Kids[2:] {
		target, static := proto, false
		kindOp := m.Op
		switch kindOp {
		case "smethod", "sget", "sset", "sfield":
			target, static = F.obj, true
			kindOp = kindOp[1:]
		}
		switch kindOp {
		case "ctor":
		case "method":
			cl := in.makeClosure(m, cenv, fkMethod, true, "")
			cl.home = target
			in.prim("defData", target, in.keyOf(m.Kids[0]), cl.obj, in.vFalse)
		case "get":
			cl := in.makeClosure(m, cenv, fkMethod, true, "")
			cl.home = target
			in.prim("defGet", target, in.keyOf(m.Kids[0]), cl.obj, in.vFalse)
		case "set":
			cl := in.makeClosure(m, cenv, fkMethod, true, "")
			cl.home = target
			in.prim("defSet", target, in.keyOf(m.Kids[0]), cl.obj, in.vFalse)
		case "field":
			var init *Node
			if len(m.Kids) > 1 && !m.Kids[1].IsNone() {
				init = m.Kids[1]
			}
			if static {
				statics = append(statics, staticField{in.keyOf(m.Kids[0]), init})
			} else {
				F.fields = append(F.fields, &fieldDef{key: in.keyOf(m.Kids[0]), init: init, env: cenv, home: proto})
			}
		default:
			unsupported("class member " + m.Op)
		}
	}
	if nameBinding != nil {
		nameBinding.val, nameBinding.init = F.obj, true
	}
	for _, sf := range statics {
		var v goja.Value = goja.Undefined()
		if sf.init != nil {
			fenv := newEnv(cenv)
			fenv.strict = true
			fenv.fn = &funcCtx{cl: &Closure{kind: fkMethod, home: F.obj, strict: true}, thisVal: F.obj, thisInit: true, newTarget: goja.Undefined()}
			v = in.evalExpr(sf.init, fenv)
		}
		in.prim("defData", F.obj, sf.key, v, in.vTrue)
	}
	return F.obj
}
