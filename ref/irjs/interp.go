package irjs

import (
	"fmt"
	"strconv"

	"github.com/dop251/goja"
)

// Result is the observable behaviour of one program run.
type Result struct {
	Log   []string
	Value string // rendered completion value (normal completion)
	Threw bool
	Exc   string // rendered thrown value
	Abort string // non-empty: no verdict (step / depth budget exceeded, unsupported construct)
}

// Key is a canonical one-line form (used for comparison and hashing).
func (r *Result) Key(withValue bool) string {
	s := ""
	for _, l := range r.Log {
		s += l + ";"
	}
	if r.Abort != "" {
		return s + " ABORT " + r.Abort
	}
	if r.Threw {
		return s + " THROW " + r.Exc
	}
	if withValue {
		return s + " => " + r.Value
	}
	return s + " => ."
}

// primitive operator lambdas: the only compiled code the reference interpreter relies on. Each is applied to
// primitives only (object operands are converted by the interpreter's own ToPrimitive first), except the
// object primitives (get/set/delete/has/define/create/...).
const opsSrc = `({
 "get": function(o,k){return o[k]},
 "set": function(o,k,v){o[k]=v},
 "setS": function(o,k,v){"use strict";o[k]=v},
 "del": function(o,k){return delete o[k]},
 "delS": function(o,k){"use strict";return delete o[k]},
 "has": function(k,o){return k in o},
 "typeof": function(a){return typeof a},
 "neg": function(a){return -a}, "pos": function(a){return +a}, "!": function(a){return !a}, "~": function(a){return ~a},
 "inc": function(a){return a+1}, "dec": function(a){return a-1},
 "+": function(a,b){return a+b}, "-": function(a,b){return a-b}, "*": function(a,b){return a*b}, "/": function(a,b){return a/b},
 "%": function(a,b){return a%b}, "**": function(a,b){return a**b}, "<<": function(a,b){return a<<b}, ">>": function(a,b){return a>>b},
 ">>>": function(a,b){return a>>>b}, "&": function(a,b){return a&b}, "|": function(a,b){return a|b}, "^": function(a,b){return a^b},
 "<": function(a,b){return a<b}, ">": function(a,b){return a>b}, "<=": function(a,b){return a<=b}, ">=": function(a,b){return a>=b},
 "==": function(a,b){return a==b}, "!=": function(a,b){return a!=b}, "===": function(a,b){return a===b}, "!==": function(a,b){return a!==b},
 "instanceof": function(a,b){return a instanceof b},
 "toObj": function(a){return Object(a)},
 "toStr": function(a){return String(a)},
 "tplStr": function(a){return "".concat(a)},
 "keys": function(o){var r=[];for(var k in o)r.push(k);return r},
 "create": function(p){return Object.create(p)},
 "objProto": function(){return Object.prototype},
 "funcProto": function(){return Function.prototype},
 "getProto": function(o){return Object.getPrototypeOf(o)},
 "setProto": function(o,p){return Object.setPrototypeOf(o,p)},
 "defData": function(o,k,v,e){Object.defineProperty(o,k,{value:v,writable:true,enumerable:e,configurable:true})},
 "defGet": function(o,k,f,e){Object.defineProperty(o,k,{get:f,enumerable:e,configurable:true})},
 "defSet": function(o,k,f,e){Object.defineProperty(o,k,{set:f,enumerable:e,configurable:true})},
 "defProtoProp": function(f,p){Object.defineProperty(f,"prototype",{value:p,writable:false,enumerable:false,configurable:false})},
 "mkArgs": function(){"use strict";return arguments},
 "arr": function(){return []},
 "setLen": function(a,n){a.length=n},
 "newRef": function(m){return new ReferenceError(m)},
 "newType": function(m){return new TypeError(m)},
 "construct": function(F,args){return new F(...args)},
 "rconstruct": function(F,args,nt){return Reflect.construct(F,args,nt)},
 "superGet": function(p,k,r){return Reflect.get(p,k,r)},
 "superSet": function(p,k,v,r){return Reflect.set(p,k,v,r)},
 "copyProps": function(t,s,ex){ if (s===undefined||s===null) return t; var o=Object(s); var ks=Reflect.ownKeys(o);
    for (var i=0;i<ks.length;i++){ var k=ks[i]; if (ex && ex.indexOf(k)>=0) continue; var d=Object.getOwnPropertyDescriptor(o,k);
      if (d && d.enumerable) Object.defineProperty(t,k,{value:o[k],writable:true,enumerable:true,configurable:true}); } return t; },
 "isCtor": function(f){ try { Reflect.construct(Object, [], f); return true } catch(e) { return false } }
})`

var opsPrg = goja.MustCompile("irjs-ops.js", opsSrc, false)

type abortSignal struct{ reason string }

type jsThrow struct{ v goja.Value }

// Interp is a definitional interpreter bound to one Host (one runtime). Not goroutine-safe.
type Interp struct {
	H        *Host
	rt       *goja.Runtime
	op       map[string]goja.Callable
	MaxSteps int
	MaxDepth int

	steps, depth int
	closures     map[*goja.Object]*Closure
	globalObj    *goja.Object
	objProto     *goja.Object
	funcProto    *goja.Object
	createdGlob  []string
	numCache     map[string]goja.Value
	strCache     map[string]goja.Value
	vTrue        goja.Value
	vFalse       goja.Value
	symIterator  goja.Value
	symToPrim    goja.Value
	argsMaps     map[*goja.Object]*argsMap
	annexB       map[*Node]*Env
}

func NewInterp(h *Host) *Interp {
	in := &Interp{H: h, rt: h.RT, MaxSteps: 4000, MaxDepth: 40,
		op: map[string]goja.Callable{}, closures: map[*goja.Object]*Closure{},
		numCache: map[string]goja.Value{}, strCache: map[string]goja.Value{}}
	v, err := h.RT.RunProgram(opsPrg)
	if err != nil {
		panic(err)
	}
	o := v.(*goja.Object)
	for _, k := range o.Keys() {
		f, ok := goja.AssertFunction(o.Get(k))
		if !ok {
			panic("irjs: op " + k)
		}
		in.op[k] = f
	}
	in.globalObj = h.RT.GlobalObject()
	in.vTrue, in.vFalse = h.RT.ToValue(true), h.RT.ToValue(false)
	in.symIterator, in.symToPrim = goja.SymIterator, goja.SymToPrimitive
	in.objProto = in.prim("objProto").(*goja.Object)
	in.funcProto = in.prim("funcProto").(*goja.Object)
	return in
}

// prim applies a primitive lambda; a thrown JS exception becomes an interpreter throw.
func (in *Interp) prim(name string, args ...goja.Value) goja.Value {
	f := in.op[name]
	if f == nil {
		panic("irjs: unknown primitive " + name)
	}
	v, err := f(goja.Undefined(), args...)
	if err != nil {
		in.convertErr(err)
	}
	return v
}

func (in *Interp) convertErr(err error) {
	if ex, ok := err.(*goja.Exception); ok {
		panic(&jsThrow{ex.Value()})
	}
	panic(abortSignal{"engine: " + err.Error()})
}

func (in *Interp) step() {
	in.steps++
	if in.steps > in.MaxSteps {
		panic(abortSignal{"steps"})
	}
}

func (in *Interp) throwType(format string, a ...interface{}) {
	panic(&jsThrow{in.prim("newType", in.rt.ToValue(fmt.Sprintf(format, a...)))})
}

func (in *Interp) throwRef(format string, a ...interface{}) {
	panic(&jsThrow{in.prim("newRef", in.rt.ToValue(fmt.Sprintf(format, a...)))})
}

func unsupported(what string) { panic(abortSignal{"unsupported: " + what}) }

// ---------- environments ----------

type Binding struct {
	val       goja.Value
	init      bool
	mutable   bool
	strictImm bool // assignment to an immutable binding throws even in sloppy code (const, class name)
	alias     *argAlias
}

type argAlias struct {
	obj *goja.Object
	idx int
	on  bool
}

type funcCtx struct {
	cl        *Closure
	thisVal   goja.Value
	thisInit  bool
	newTarget goja.Value
}

type Env struct {
	outer  *Env
	names  []string
	binds  []*Binding
	fn     *funcCtx // function environment (non-arrow functions only carry this/new.target/home)
	strict bool
}

func newEnv(outer *Env) *Env {
	e := &Env{outer: outer}
	if outer != nil {
		e.strict = outer.strict
	}
	return e
}

func (e *Env) own(name string) *Binding {
	for i, n := range e.names {
		if n == name {
			return e.binds[i]
		}
	}
	return nil
}

func (e *Env) lookup(name string) *Binding {
	for ; e != nil; e = e.outer {
		if b := e.own(name); b != nil {
			return b
		}
	}
	return nil
}

func (e *Env) create(name string, mutable, strictImm bool) *Binding {
	b := &Binding{mutable: mutable, strictImm: strictImm}
	e.names = append(e.names, name)
	e.binds = append(e.binds, b)
	return b
}

func (e *Env) createInit(name string, v goja.Value) *Binding {
	b := e.create(name, true, false)
	b.val, b.init = v, true
	return b
}

func (in *Interp) initBinding(b *Binding, v goja.Value) {
	b.val, b.init = v, true
}

// ---------- completions ----------

type ctype uint8

const (
	cNormal ctype = iota
	cBreak
	cContinue
	cReturn
)

// Completion of a statement. v == nil is the "empty" value. Throw completions are Go panics (*jsThrow).
type Completion struct {
	t     ctype
	v     goja.Value
	label string
}

func normal(v goja.Value) Completion { return Completion{v: v} }

func updateEmpty(c Completion, v goja.Value) Completion {
	if c.v == nil {
		c.v = v
	}
	return c
}

// catch runs f and returns the thrown value if f threw.
func (in *Interp) catch(f func()) (thrown goja.Value, threw bool) {
	defer func() {
		if x := recover(); x != nil {
			if t, ok := x.(*jsThrow); ok {
				thrown, threw = t.v, true
				return
			}
			panic(x)
		}
	}()
	f()
	return
}

// ---------- program ----------

// Run interprets a (prog ...) node as global code. strict = the program starts with a "use strict" directive
// (directive nodes in the IR are honoured as well).
func (in *Interp) Run(prog *Node, strict bool) (res *Result) {
	in.steps, in.depth = 0, 0
	in.H.Log = in.H.Log[:0]
	in.createdGlob = in.createdGlob[:0]
	for k := range in.closures {
		delete(in.closures, k)
	}
	in.argsMaps, in.annexB = nil, nil
	res = &Result{}
	defer func() {
		for _, n := range in.createdGlob {
			in.globalObj.Delete(n)
		}
		if x := recover(); x != nil {
			if a, ok := x.(abortSignal); ok {
				res.Abort = a.reason
				res.Log = append([]string(nil), in.H.Log...)
				return
			}
			panic(x)
		}
	}()
	if hasUseStrict(prog.Kids) {
		strict = true
	}
	genv := newEnv(nil)
	genv.strict = strict
	var c Completion
	thrown, threw := in.catch(func() {
		in.globalDeclarationInstantiation(prog.Kids, genv)
		c = in.evalStmtList(prog.Kids, genv)
	})
	res.Log = append([]string(nil), in.H.Log...)
	if threw {
		res.Threw = true
		res.Exc = Render(thrown)
		return
	}
	if c.t != cNormal {
		panic(abortSignal{"unsupported: abrupt completion at top level"})
	}
	if c.v == nil {
		res.Value = "undefined"
	} else {
		res.Value = Render(c.v)
	}
	return
}

func hasUseStrict(list []*Node) bool {
	for _, s := range list {
		if s.Is("directive") {
			if s.Kids[0].Op == `"use strict"` {
				return true
			}
			continue
		}
		break
	}
	return false
}

// ---------- static semantics ----------

// BoundNames of a binding target / pattern.
func BoundNames(t *Node, out []string) []string {
	switch {
	case t == nil || t.IsNone():
	case t.Atom:
		out = append(out, t.Op)
	case t.Is("opat"):
		for _, e := range t.Kids {
			switch e.Op {
			case "p":
				out = BoundNames(e.Kids[1], out)
			case "ps":
				out = append(out, e.Kids[0].Op)
			case "rest":
				out = BoundNames(e.Kids[0], out)
			}
		}
	case t.Is("apat"):
		for _, e := range t.Kids {
			switch {
			case e.IsNone():
			case e.Is("def"), e.Is("rest"):
				out = BoundNames(e.Kids[0], out)
			default:
				out = BoundNames(e, out)
			}
		}
	case t.Is("def"), t.Is("rest"):
		out = BoundNames(t.Kids[0], out)
	}
	return out
}

// varScoped collects the var-scoped declarations of a statement list that is the body of a function / program:
// var names (in order, with duplicates) and top-level function declarations. Nested statements are searched for
// var declarations; function boundaries are not crossed. annexB receives function declarations nested in blocks.
type varScan struct {
	varNames []string
	funcs    []*Node // top-level function declarations (var-scoped)
	blockFns []*Node // function declarations nested in blocks / case clauses (candidates for Annex B.3.3)
}

func (vs *varScan) stmts(list []*Node, top bool) {
	for _, s := range list {
		vs.stmt(s, top)
	}
}

func (vs *varScan) stmt(s *Node, top bool) {
	if s == nil || s.Atom {
		return
	}
	switch s.Op {
	case "var":
		vs.varNames = BoundNames(s.Kids[0], vs.varNames)
	case "fdecl":
		if top {
			vs.funcs = append(vs.funcs, s)
		} else {
			vs.blockFns = append(vs.blockFns, s)
		}
	case "block":
		vs.stmts(s.Kids, false)
	case "if":
		vs.stmt(s.Kids[1], false)
		if len(s.Kids) > 2 {
			vs.stmt(s.Kids[2], false)
		}
	case "for":
		if s.Kids[0].Is("var") {
			vs.varNames = BoundNames(s.Kids[0].Kids[0], vs.varNames)
		}
		vs.stmt(s.Kids[3], false)
	case "forin", "forof":
		if s.Kids[0].Is("var") {
			vs.varNames = BoundNames(s.Kids[0].Kids[0], vs.varNames)
		}
		vs.stmt(s.Kids[2], false)
	case "while":
		vs.stmt(s.Kids[1], false)
	case "dowhile":
		vs.stmt(s.Kids[0], false)
	case "switch":
		for _, c := range s.Kids[1:] {
			if c.Is("case") {
				vs.stmts(c.Kids[1:], false)
			} else {
				vs.stmts(c.Kids, false)
			}
		}
	case "label":
		vs.stmt(s.Kids[1], top) // a labelled function declaration at top level is still top-level
	case "try":
		vs.stmts(s.Kids[0].Kids, false)
		if c := s.Kids[1]; !c.IsNone() {
			vs.stmts(c.Kids[1:], false)
		}
		if f := s.Kids[2]; !f.IsNone() {
			vs.stmts(f.Kids, false)
		}
	case "with":
		vs.stmt(s.Kids[1], false)
	}
}

// lexDecls returns the lexically scoped declarations directly contained in a statement list
// (let / const / class; plus function declarations when the list is a block body).
func lexDecls(list []*Node, block bool) (decls []*Node) {
	for _, s := range list {
		for s.Is("label") {
			s = s.Kids[1]
		}
		switch {
		case s.Is("let"), s.Is("const"), s.Is("classdecl"):
			decls = append(decls, s)
		case s.Is("fdecl") && block:
			decls = append(decls, s)
		}
	}
	return
}

func contains(list []string, s string) bool {
	for _, x := range list {
		if x == s {
			return true
		}
	}
	return false
}

func (in *Interp) instantiateLex(decls []*Node, env *Env) {
	for _, d := range decls {
		switch d.Op {
		case "let":
			for _, n := range BoundNames(d.Kids[0], nil) {
				env.create(n, true, false)
			}
		case "const":
			for _, n := range BoundNames(d.Kids[0], nil) {
				env.create(n, false, true)
			}
		case "classdecl":
			env.create(d.Kids[0].Op, true, false)
		}
	}
	// function declarations in blocks are initialised at block entry (last one wins)
	for _, d := range decls {
		if d.Op == "fdecl" {
			name := d.Kids[0].Op
			fo := in.instantiateFunctionDecl(d, env)
			if b := env.own(name); b != nil {
				b.val, b.init = fo, true
			} else {
				env.createInit(name, fo)
			}
		}
	}
}

func (in *Interp) globalDeclarationInstantiation(body []*Node, env *Env) {
	var vs varScan
	vs.stmts(body, true)
	lex := lexDecls(body, false)
	// functions to initialise: last declaration of a name wins
	declared := []string{}
	var fns []*Node
	for i := len(vs.funcs) - 1; i >= 0; i-- {
		f := vs.funcs[i]
		if !contains(declared, f.Kids[0].Op) {
			declared = append(declared, f.Kids[0].Op)
			fns = append([]*Node{f}, fns...)
		}
	}
	in.instantiateLex(lex, env)
	for _, f := range fns {
		fo := in.instantiateFunctionDecl(f, env)
		if b := env.own(f.Kids[0].Op); b != nil {
			b.val, b.init = fo, true
		} else {
			env.createInit(f.Kids[0].Op, fo)
		}
	}
	for _, n := range vs.varNames {
		if env.own(n) == nil {
			env.createInit(n, goja.Undefined())
		}
	}
	if !env.strict {
		in.annexBHoist(vs.blockFns, body, env, nil)
	}
}

// annexBHoist implements B.3.3.1 / B.3.3.2 (sloppy mode): a function declaration nested in a block also gets a
// var binding in the enclosing function / global scope (initialised to undefined), provided that replacing it
// by a var declaration would not be an early error; the declaration is marked so that evaluating it copies
// the block binding to the var binding.
func (in *Interp) annexBHoist(blockFns []*Node, body []*Node, varEnv *Env, paramNames []string) {
	for _, f := range blockFns {
		name := f.Kids[0].Op
		if contains(paramNames, name) {
			continue
		}
		if !annexBOk(body, f, name) {
			continue
		}
		if varEnv.own(name) == nil {
			varEnv.createInit(name, goja.Undefined())
		}
		if in.annexB == nil {
			in.annexB = map[*Node]*Env{}
		}
		in.annexB[f] = varEnv
	}
}

// annexBOk: no enclosing block between the function scope and the declaration binds name lexically
// (other than by function declarations in the same block as f).
func annexBOk(body []*Node, f *Node, name string) bool {
	ok := true
	var walk func(list []*Node, isBlock bool) bool // returns true if f is inside list
	var walkStmt func(s *Node) bool
	walk = func(list []*Node, isBlock bool) bool {
		inside := false
		direct := false
		for _, s := range list {
			t := s
			for t.Is("label") {
				t = t.Kids[1]
			}
			if t == f {
				inside, direct = true, true
			} else if walkStmt(t) {
				inside = true
			}
		}
		if inside {
			for _, s := range list {
				t := s
				for t.Is("label") {
					t = t.Kids[1]
				}
				switch {
				case t.Is("let"), t.Is("const"):
					if contains(BoundNames(t.Kids[0], nil), name) {
						ok = false
					}
				case t.Is("classdecl"):
					if t.Kids[0].Op == name {
						ok = false
					}
				case t.Is("fdecl") && isBlock && !direct:
					if t.Kids[0].Op == name {
						ok = false
					}
				}
			}
		}
		return inside
	}
	walkStmt = func(s *Node) bool {
		if s == nil || s.Atom {
			return false
		}
		switch s.Op {
		case "block":
			return walk(s.Kids, true)
		case "if":
			r := walkStmt(s.Kids[1])
			if len(s.Kids) > 2 && walkStmt(s.Kids[2]) {
				r = true
			}
			return r
		case "for":
			r := walkStmt(s.Kids[3])
			if r && (s.Kids[0].Is("let") || s.Kids[0].Is("const")) && contains(BoundNames(s.Kids[0].Kids[0], nil), name) {
				ok = false
			}
			return r
		case "forin", "forof":
			r := walkStmt(s.Kids[2])
			if r && (s.Kids[0].Is("let") || s.Kids[0].Is("const")) && contains(BoundNames(s.Kids[0].Kids[0], nil), name) {
				ok = false
			}
			return r
		case "while":
			return walkStmt(s.Kids[1])
		case "dowhile":
			return walkStmt(s.Kids[0])
		case "label":
			return walkStmt(s.Kids[1])
		case "with":
			return walkStmt(s.Kids[1])
		case "switch":
			var all []*Node
			for _, c := range s.Kids[1:] {
				if c.Is("case") {
					all = append(all, c.Kids[1:]...)
				} else {
					all = append(all, c.Kids...)
				}
			}
			return walk(all, true)
		case "try":
			r := walk(s.Kids[0].Kids, true)
			if c := s.Kids[1]; !c.IsNone() {
				if walk(c.Kids[1:], true) {
					r = true
					if contains(BoundNames(c.Kids[0], nil), name) && !c.Kids[0].Atom {
						ok = false // a destructuring catch parameter conflicts; a simple one does not (B.3.5)
					}
				}
			}
			if fb := s.Kids[2]; !fb.IsNone() {
				if walk(fb.Kids, true) {
					r = true
				}
			}
			return r
		}
		return false
	}
	walk(body, false)
	return ok
}

// ---------- statements ----------

func (in *Interp) evalStmtList(list []*Node, env *Env) Completion {
	var v goja.Value
	for _, s := range list {
		c := in.evalStmt(s, env, nil)
		if c.t != cNormal {
			return updateEmpty(c, v)
		}
		if c.v != nil {
			v = c.v
		}
	}
	return normal(v)
}

func loopContinues(c Completion, labelSet []string) bool {
	if c.t == cNormal {
		return true
	}
	if c.t != cContinue {
		return false
	}
	if c.label == "" {
		return true
	}
	return contains(labelSet, c.label)
}

// breakable converts an unlabelled break that reached its loop / switch into a normal completion.
func breakable(c Completion) Completion {
	if c.t == cBreak && c.label == "" {
		if c.v == nil {
			return normal(goja.Undefined())
		}
		return normal(c.v)
	}
	return c
}

func (in *Interp) evalStmt(s *Node, env *Env, labelSet []string) Completion {
	in.step()
	switch s.Op {
	case "directive":
		return normal(in.str(s.Kids[0].StrVal()))
	case "expr":
		return normal(in.evalExpr(s.Kids[0], env))
	case "var":
		if len(s.Kids) > 1 && !s.Kids[1].IsNone() {
			t := s.Kids[0]
			if t.Atom {
				ref := in.resolveBinding(t.Op, env)
				v := in.evalNamed(s.Kids[1], env, t.Op)
				in.putValue(ref, v, env)
			} else {
				v := in.evalExpr(s.Kids[1], env)
				in.bindingInit(t, v, nil, env)
			}
		}
		return normal(nil)
	case "let", "const":
		t := s.Kids[0]
		if t.Atom {
			var v goja.Value = goja.Undefined()
			if len(s.Kids) > 1 && !s.Kids[1].IsNone() {
				v = in.evalNamed(s.Kids[1], env, t.Op)
			}
			in.initBinding(in.mustOwnBinding(t.Op, env), v)
		} else {
			v := in.evalExpr(s.Kids[1], env)
			in.bindingInit(t, v, env, env)
		}
		return normal(nil)
	case "fdecl":
		if venv, ok := in.annexB[s]; ok {
			// B.3.3: copy the block-level binding to the var binding when the declaration is evaluated
			name := s.Kids[0].Op
			if b := env.lookup(name); b != nil && b.init {
				if vb := venv.own(name); vb != nil {
					vb.val, vb.init = b.val, true
				}
			}
		}
		return normal(nil)
	case "classdecl":
		v := in.classDefinition(s, env, s.Kids[0].Op)
		in.initBinding(in.mustOwnBinding(s.Kids[0].Op, env), v)
		return normal(nil)
	case "block":
		benv := newEnv(env)
		in.instantiateLex(lexDecls(s.Kids, true), benv)
		return in.evalStmtList(s.Kids, benv)
	case "if":
		var c Completion
		if in.evalExpr(s.Kids[0], env).ToBoolean() {
			c = in.evalStmt(s.Kids[1], env, nil)
		} else if len(s.Kids) > 2 && !s.Kids[2].IsNone() {
			c = in.evalStmt(s.Kids[2], env, nil)
		} else {
			return normal(goja.Undefined())
		}
		return updateEmpty(c, goja.Undefined())
	case "dowhile":
		var v goja.Value = goja.Undefined()
		for {
			in.step()
			c := in.evalStmt(s.Kids[0], env, nil)
			if !loopContinues(c, labelSet) {
				return breakable(updateEmpty(c, v))
			}
			if c.v != nil {
				v = c.v
			}
			if !in.evalExpr(s.Kids[1], env).ToBoolean() {
				return normal(v)
			}
		}
	case "while":
		var v goja.Value = goja.Undefined()
		for {
			in.step()
			if !in.evalExpr(s.Kids[0], env).ToBoolean() {
				return normal(v)
			}
			c := in.evalStmt(s.Kids[1], env, nil)
			if !loopContinues(c, labelSet) {
				return breakable(updateEmpty(c, v))
			}
			if c.v != nil {
				v = c.v
			}
		}
	case "for":
		return breakable(in.evalFor(s, env, labelSet))
	case "forin", "forof":
		return breakable(in.evalForInOf(s, env, labelSet))
	case "switch":
		return breakable(in.evalSwitch(s, env))
	case "label":
		l := s.Kids[0].Op
		body := s.Kids[1]
		var c Completion
		if body.Is("fdecl") {
			c = in.evalStmt(body, env, nil)
		} else {
			c = in.evalStmt(body, env, append(append([]string(nil), labelSet...), l))
		}
		if c.t == cBreak && c.label == l {
			c = normal(c.v)
		}
		return c
	case "break":
		c := Completion{t: cBreak}
		if len(s.Kids) > 0 && !s.Kids[0].IsNone() {
			c.label = s.Kids[0].Op
		}
		return c
	case "continue":
		c := Completion{t: cContinue}
		if len(s.Kids) > 0 && !s.Kids[0].IsNone() {
			c.label = s.Kids[0].Op
		}
		return c
	case "return":
		var v goja.Value = goja.Undefined()
		if len(s.Kids) > 0 && !s.Kids[0].IsNone() {
			v = in.evalExpr(s.Kids[0], env)
		}
		return Completion{t: cReturn, v: v}
	case "throw":
		v := in.evalExpr(s.Kids[0], env)
		panic(&jsThrow{v})
	case "try":
		return in.evalTry(s, env)
	case "empty":
		return normal(nil)
	}
	unsupported("statement " + s.Op)
	panic("unreachable")
}

func (in *Interp) mustOwnBinding(name string, env *Env) *Binding {
	b := env.own(name)
	if b == nil {
		// lexical declarations of a function body live in the function's lexical environment, which may be
		// the same record as the one passed here or an outer one created by the same instantiation
		b = env.lookup(name)
	}
	if b == nil {
		panic("irjs: binding not instantiated: " + name)
	}
	return b
}

func (in *Interp) evalTry(s *Node, env *Env) Completion {
	var c Completion
	thrown, threw := in.catch(func() {
		c = in.evalStmt(N("block", s.Kids[0].Kids...), env, nil)
	})
	if threw {
		if cc := s.Kids[1]; !cc.IsNone() {
			threw = false
			thrown2, threw2 := in.catch(func() {
				cenv := newEnv(env)
				if p := cc.Kids[0]; !p.IsNone() {
					for _, n := range BoundNames(p, nil) {
						cenv.create(n, true, false)
					}
					in.bindingInit(p, thrown, cenv, cenv)
				}
				c = in.evalStmt(N("block", cc.Kids[1:]...), cenv, nil)
			})
			thrown, threw = thrown2, threw2
		}
	}
	if f := s.Kids[2]; !f.IsNone() {
		fc := in.evalStmt(N("block", f.Kids...), env, nil) // a throw here propagates and replaces everything
		if fc.t != cNormal {
			return updateEmpty(fc, goja.Undefined())
		}
	}
	if threw {
		panic(&jsThrow{thrown})
	}
	return updateEmpty(c, goja.Undefined())
}

func (in *Interp) evalFor(s *Node, env *Env, labelSet []string) Completion {
	init, test, update, body := s.Kids[0], s.Kids[1], s.Kids[2], s.Kids[3]
	cur := env
	var perIter []string
	switch {
	case init.IsNone():
	case init.Is("expr"):
		in.evalExpr(init.Kids[0], env)
	case init.Is("var"):
		in.evalStmt(init, env, nil)
	case init.Is("let"), init.Is("const"):
		loopEnv := newEnv(env)
		isConst := init.Is("const")
		for _, n := range BoundNames(init.Kids[0], nil) {
			if isConst {
				loopEnv.create(n, false, true)
			} else {
				loopEnv.create(n, true, false)
				perIter = append(perIter, n)
			}
		}
		in.evalStmt(init, loopEnv, nil)
		cur = loopEnv
	default:
		unsupported("for initialiser")
	}
	copyEnv := func() {
		if len(perIter) == 0 {
			return
		}
		last := cur
		ne := newEnv(last.outer)
		for _, n := range perIter {
			lb := last.own(n)
			if !lb.init {
				in.throwRef("Cannot access a variable before initialization")
			}
			ne.createInit(n, lb.val)
		}
		cur = ne
	}
	var v goja.Value = goja.Undefined()
	copyEnv()
	for {
		in.step()
		if !test.IsNone() {
			if !in.evalExpr(test, cur).ToBoolean() {
				return normal(v)
			}
		}
		c := in.evalStmt(body, cur, nil)
		if !loopContinues(c, labelSet) {
			return updateEmpty(c, v)
		}
		if c.v != nil {
			v = c.v
		}
		copyEnv()
		if !update.IsNone() {
			in.evalExpr(update, cur)
		}
	}
}

func (in *Interp) evalForInOf(s *Node, env *Env, labelSet []string) Completion {
	head, rhs, body := s.Kids[0], s.Kids[1], s.Kids[2]
	isOf := s.Op == "forof"
	lexical := head.Is("let") || head.Is("const")
	// head evaluation: TDZ environment for the bound names
	henv := env
	if lexical {
		henv = newEnv(env)
		for _, n := range BoundNames(head.Kids[0], nil) {
			henv.create(n, true, false)
		}
	}
	exprValue := in.evalExpr(rhs, henv)
	var keys []goja.Value
	var rec *iterRec
	if isOf {
		rec = in.getIterator(exprValue)
	} else {
		if goja.IsUndefined(exprValue) || goja.IsNull(exprValue) {
			return normal(goja.Undefined())
		}
		obj := in.prim("toObj", exprValue)
		ka := in.prim("keys", obj).(*goja.Object)
		n := int(ka.Get("length").ToInteger())
		for i := 0; i < n; i++ {
			keys = append(keys, ka.Get(strconv.Itoa(i)))
		}
	}
	var v goja.Value = goja.Undefined()
	ki := 0
	for {
		in.step()
		var next goja.Value
		if isOf {
			next = in.iteratorStep(rec)
			if next == nil {
				return normal(v)
			}
		} else {
			if ki >= len(keys) {
				return normal(v)
			}
			next = keys[ki]
			ki++
		}
		iterEnv := env
		thrown, threw := in.catch(func() {
			switch {
			case lexical:
				iterEnv = newEnv(env)
				isConst := head.Is("const")
				for _, n := range BoundNames(head.Kids[0], nil) {
					if isConst {
						iterEnv.create(n, false, true)
					} else {
						iterEnv.create(n, true, false)
					}
				}
				in.bindingInit(head.Kids[0], next, iterEnv, iterEnv)
			case head.Is("var"):
				in.bindingInit(head.Kids[0], next, nil, env)
			default:
				in.assignTarget(head, next, env)
			}
		})
		if threw {
			if isOf {
				in.iteratorClose(rec, true)
			}
			panic(&jsThrow{thrown})
		}
		var c Completion
		thrown, threw = in.catch(func() { c = in.evalStmt(body, iterEnv, nil) })
		if threw {
			if isOf {
				in.iteratorClose(rec, true)
			}
			panic(&jsThrow{thrown})
		}
		if !loopContinues(c, labelSet) {
			c = updateEmpty(c, v)
			if isOf {
				in.iteratorClose(rec, false)
			}
			return c
		}
		if c.v != nil {
			v = c.v
		}
	}
}

func (in *Interp) evalSwitch(s *Node, env *Env) Completion {
	disc := in.evalExpr(s.Kids[0], env)
	benv := newEnv(env)
	var all []*Node
	clauses := s.Kids[1:]
	for _, c := range clauses {
		if c.Is("case") {
			all = append(all, c.Kids[1:]...)
		} else {
			all = append(all, c.Kids...)
		}
	}
	in.instantiateLex(lexDecls(all, true), benv)
	defIdx := -1
	for i, c := range clauses {
		if c.Is("default") {
			defIdx = i
		}
	}
	selected := func(c *Node) bool {
		cv := in.evalExpr(c.Kids[0], benv)
		return in.prim("===", disc, cv).ToBoolean()
	}
	var v goja.Value = goja.Undefined()
	run := func(c *Node) (Completion, bool) {
		list := c.Kids
		if c.Is("case") {
			list = c.Kids[1:]
		}
		r := in.evalStmtList(list, benv)
		if r.v != nil {
			v = r.v
		}
		if r.t != cNormal {
			return updateEmpty(r, v), true
		}
		return r, false
	}
	if defIdx == -1 {
		found := false
		for _, c := range clauses {
			if !found {
				found = selected(c)
			}
			if found {
				if r, abrupt := run(c); abrupt {
					return r
				}
			}
		}
		return normal(v)
	}
	a, b := clauses[:defIdx], clauses[defIdx+1:]
	found := false
	for _, c := range a {
		if !found {
			found = selected(c)
		}
		if found {
			if r, abrupt := run(c); abrupt {
				return r
			}
		}
	}
	foundInB := false
	if !found {
		for _, c := range b {
			if !foundInB {
				foundInB = selected(c)
			}
			if foundInB {
				if r, abrupt := run(c); abrupt {
					return r
				}
			}
		}
	}
	if foundInB {
		return normal(v)
	}
	if r, abrupt := run(clauses[defIdx]); abrupt {
		return r
	}
	for _, c := range b {
		if r, abrupt := run(c); abrupt {
			return r
		}
	}
	return normal(v)
}
