package irjs

import (
	"strings"
)

// IR constructs (Op, operands). "_" (None) stands for an absent optional operand; X... is a list.
//
// Statements
//
//	(prog S...)                      program / eval code / function body list
//	(directive "use strict")
//	(expr E)
//	(var T E?) (let T E?) (const T E) T = identifier or pattern, one declarator per declaration
//	(fdecl name (params P...) S...)
//	(classdecl name H|_ M...)
//	(block S...)
//	(if E S S?)
//	(for I T U S)                    I = _ | (var ..) | (let ..) | (const ..) | (expr E);  T, U = E | _
//	(forin D E S) (forof D E S)      D = (var T) | (let T) | (const T) | assignment target
//	(while E S) (dowhile S E)
//	(switch E C...)                  C = (case E S...) | (default S...)
//	(label L S) (break L?) (continue L?) (return E?) (throw E)
//	(try (block S...) C F)           C = _ | (catch T|_ S...);  F = _ | (finally S...)
//	(empty)
//	(with E S)                       only produced by rewrites (not interpreted by Interp)
//
// Expressions
//
//	atoms: numbers, "strings", true false null this, identifiers (undefined is an identifier)
//	(neg E) (pos E) (! E) (~ E) (typeof E) (void E) (delete E)
//	(++pre T) (--pre T) (post++ T) (post-- T)
//	(OP A B)  OP in + - * / % ** << >> >>> & | ^ < > <= >= == != === !== in instanceof && || ??
//	(= T E) (OP= T E)
//	(?: C A B) (, A B...)
//	(. O name) ([] O K)
//	(call F A...) (new F A...)       A may be (spread E)
//	(func name|_ (params P...) S...) (arrow (params P...) S...) (arrowe (params P...) E)
//	(obj PR...)                      PR = (prop key E) (cprop K E) (get key S...) (set key P S...)
//	                                      (method key (params P...) S...) (short name) (spread E)
//	(arr E...)                       E may be (spread E) or _ (hole)
//	(class name|_ H|_ M...)          M = (ctor (params P...) S...) (method key (params P...) S...) (smethod ...)
//	                                      (get key S...) (set key P S...) (sget ...) (sset ...)
//	                                      (field key E?) (sfield key E?)
//	(super A...) (superdot name)
//	(tpl X...)                       string atoms are literal chunks, everything else is ${E}
//	(evalstr F)                      eval("(" + (F).toString() + ")")   only produced by rewrites
//
// Patterns: T = identifier | member expression (assignment only) | (opat PP...) | (apat EL...)
//
//	PP = (p key T D?) | (ps name D?) | (rest T);   EL = T | (def T D) | _ | (rest T)
//
// Parameters: P = T | (def T D) | (rest T)
var binaryOps = map[string]bool{
	"+": true, "-": true, "*": true, "/": true, "%": true, "**": true, "<<": true, ">>": true, ">>>": true,
	"&": true, "|": true, "^": true, "<": true, ">": true, "<=": true, ">=": true, "==": true, "!=": true,
	"===": true, "!==": true, "in": true, "instanceof": true,
}

var logicalOps = map[string]bool{"&&": true, "||": true, "??": true}

var assignOps = map[string]bool{
	"=": true, "+=": true, "-=": true, "*=": true, "/=": true, "%=": true, "**=": true, "<<=": true, ">>=": true,
	">>>=": true, "&=": true, "|=": true, "^=": true, "&&=": true, "||=": true, "??=": true,
}

var unaryOps = map[string]string{"neg": "-", "pos": "+", "!": "!", "~": "~", "typeof": "typeof ", "void": "void ", "delete": "delete "}

var updateOps = map[string]bool{"++pre": true, "--pre": true, "post++": true, "post--": true}

func IsBinaryOp(op string) bool  { return binaryOps[op] }
func IsLogicalOp(op string) bool { return logicalOps[op] }
func IsAssignOp(op string) bool  { return assignOps[op] }
func IsUnaryOp(op string) bool   { _, ok := unaryOps[op]; return ok }
func IsUpdateOp(op string) bool  { return updateOps[op] }

// IsStatement reports whether n is a statement node.
func IsStatement(n *Node) bool {
	if n == nil || n.Atom {
		return false
	}
	switch n.Op {
	case "directive", "expr", "var", "let", "const", "fdecl", "classdecl", "block", "if", "for", "forin", "forof",
		"while", "dowhile", "switch", "label", "break", "continue", "return", "throw", "try", "empty", "with":
		return true
	}
	return false
}

type printer struct {
	sb strings.Builder
}

// Print renders a (prog ...) node, or any statement, as JavaScript source.
func Print(n *Node) string {
	p := &printer{}
	if n.Is("prog") {
		p.stmts(n.Kids, 0)
	} else {
		p.stmt(n, 0)
	}
	return p.sb.String()
}

// PrintExpr renders an expression.
func PrintExpr(n *Node) string {
	p := &printer{}
	p.expr(n)
	return p.sb.String()
}

func (p *printer) w(s ...string) {
	for _, x := range s {
		p.sb.WriteString(x)
	}
}

func (p *printer) ind(d int) {
	for i := 0; i < d; i++ {
		p.sb.WriteString("  ")
	}
}

func (p *printer) stmts(list []*Node, d int) {
	for _, s := range list {
		p.ind(d)
		p.stmt(s, d)
		p.w("\n")
	}
}

func (p *printer) body(list []*Node, d int) {
	p.w("{\n")
	p.stmts(list, d+1)
	p.ind(d)
	p.w("}")
}

func (p *printer) decl(n *Node) {
	p.w(n.Op, " ")
	p.pattern(n.Kids[0])
	if len(n.Kids) > 1 && !n.Kids[1].IsNone() {
		p.w(" = ")
		p.assignRHS(n.Kids[1])
	}
}

func (p *printer) stmt(n *Node, d int) {
	switch n.Op {
	case "directive":
		p.w(n.Kids[0].Op, ";")
	case "expr":
		e := n.Kids[0]
		start := p.sb.Len()
		p.expr(e)
		txt := p.sb.String()[start:]
		if strings.HasPrefix(txt, "{") || strings.HasPrefix(txt, "function") || strings.HasPrefix(txt, "class") || strings.HasPrefix(txt, "let") || strings.HasPrefix(txt, "\"") {
			// would be parsed as a block / declaration / directive
			s := p.sb.String()[:start]
			p.sb.Reset()
			p.w(s, "(", txt, ")")
		}
		p.w(";")
	case "var", "let", "const":
		p.decl(n)
		p.w(";")
	case "fdecl":
		p.w("function ", n.Kids[0].Op)
		p.params(n.Kids[1])
		p.w(" ")
		p.body(n.Kids[2:], d)
	case "classdecl":
		p.class(n, d)
	case "block":
		p.body(n.Kids, d)
	case "if":
		p.w("if (")
		p.expr(n.Kids[0])
		p.w(") ")
		p.sub(n.Kids[1], d)
		if len(n.Kids) > 2 && !n.Kids[2].IsNone() {
			p.w(" else ")
			p.sub(n.Kids[2], d)
		}
	case "for":
		p.w("for (")
		if i := n.Kids[0]; !i.IsNone() {
			if i.Is("expr") {
				p.expr(i.Kids[0])
			} else {
				p.decl(i)
			}
		}
		p.w("; ")
		if !n.Kids[1].IsNone() {
			p.expr(n.Kids[1])
		}
		p.w("; ")
		if !n.Kids[2].IsNone() {
			p.expr(n.Kids[2])
		}
		p.w(") ")
		p.sub(n.Kids[3], d)
	case "forin", "forof":
		p.w("for (")
		h := n.Kids[0]
		if h.Is("var") || h.Is("let") || h.Is("const") {
			p.w(h.Op, " ")
			p.pattern(h.Kids[0])
		} else {
			p.pattern(h)
		}
		if n.Op == "forin" {
			p.w(" in ")
		} else {
			p.w(" of ")
		}
		p.assignRHS(n.Kids[1])
		p.w(") ")
		p.sub(n.Kids[2], d)
	case "while":
		p.w("while (")
		p.expr(n.Kids[0])
		p.w(") ")
		p.sub(n.Kids[1], d)
	case "dowhile":
		p.w("do ")
		p.sub(n.Kids[0], d)
		p.w(" while (")
		p.expr(n.Kids[1])
		p.w(");")
	case "switch":
		p.w("switch (")
		p.expr(n.Kids[0])
		p.w(") {\n")
		for _, c := range n.Kids[1:] {
			p.ind(d + 1)
			if c.Is("case") {
				p.w("case ")
				p.expr(c.Kids[0])
				p.w(":\n")
				p.stmts(c.Kids[1:], d+2)
			} else {
				p.w("default:\n")
				p.stmts(c.Kids, d+2)
			}
		}
		p.ind(d)
		p.w("}")
	case "label":
		p.w(n.Kids[0].Op, ": ")
		p.sub(n.Kids[1], d)
	case "break", "continue":
		p.w(n.Op)
		if len(n.Kids) > 0 && !n.Kids[0].IsNone() {
			p.w(" ", n.Kids[0].Op)
		}
		p.w(";")
	case "return":
		p.w("return")
		if len(n.Kids) > 0 && !n.Kids[0].IsNone() {
			p.w(" ")
			p.expr(n.Kids[0])
		}
		p.w(";")
	case "throw":
		p.w("throw ")
		p.expr(n.Kids[0])
		p.w(";")
	case "try":
		p.w("try ")
		p.body(n.Kids[0].Kids, d)
		if c := n.Kids[1]; !c.IsNone() {
			p.w(" catch ")
			if !c.Kids[0].IsNone() {
				p.w("(")
				p.pattern(c.Kids[0])
				p.w(") ")
			}
			p.body(c.Kids[1:], d)
		}
		if f := n.Kids[2]; !f.IsNone() {
			p.w(" finally ")
			p.body(f.Kids, d)
		}
	case "empty":
		p.w(";")
	case "with":
		p.w("with (")
		p.expr(n.Kids[0])
		p.w(") ")
		p.sub(n.Kids[1], d)
	default:
		panic("irjs.Print: not a statement: " + n.String())
	}
}

// sub prints a sub-statement (body of if / loop / label / with).
func (p *printer) sub(n *Node, d int) {
	p.stmt(n, d)
}

func (p *printer) params(n *Node) {
	p.w("(")
	for i, k := range n.Kids {
		if i > 0 {
			p.w(", ")
		}
		p.param(k)
	}
	p.w(")")
}

func (p *printer) param(k *Node) {
	switch {
	case k.Is("def"):
		p.pattern(k.Kids[0])
		p.w(" = ")
		p.assignRHS(k.Kids[1])
	case k.Is("rest"):
		p.w("...")
		p.pattern(k.Kids[0])
	default:
		p.pattern(k)
	}
}

func (p *printer) key(k *Node) {
	p.w(k.Op)
}

// pattern prints a binding / assignment target.
func (p *printer) pattern(n *Node) {
	switch {
	case n.Atom:
		p.w(n.Op)
	case n.Is("opat"):
		p.w("{")
		for i, e := range n.Kids {
			if i > 0 {
				p.w(", ")
			}
			switch e.Op {
			case "p":
				p.key(e.Kids[0])
				p.w(": ")
				p.pattern(e.Kids[1])
				if len(e.Kids) > 2 && !e.Kids[2].IsNone() {
					p.w(" = ")
					p.assignRHS(e.Kids[2])
				}
			case "ps":
				p.w(e.Kids[0].Op)
				if len(e.Kids) > 1 && !e.Kids[1].IsNone() {
					p.w(" = ")
					p.assignRHS(e.Kids[1])
				}
			case "rest":
				p.w("...")
				p.pattern(e.Kids[0])
			default:
				panic("irjs.Print: bad object pattern element " + e.String())
			}
		}
		p.w("}")
	case n.Is("apat"):
		p.w("[")
		for i, e := range n.Kids {
			if i > 0 {
				p.w(", ")
			}
			switch {
			case e.IsNone():
			case e.Is("def"):
				p.pattern(e.Kids[0])
				p.w(" = ")
				p.assignRHS(e.Kids[1])
			case e.Is("rest"):
				p.w("...")
				p.pattern(e.Kids[0])
			default:
				p.pattern(e)
			}
		}
		if len(n.Kids) > 0 && n.Kids[len(n.Kids)-1].IsNone() {
			p.w(",")
		}
		p.w("]")
	default:
		p.expr(n) // member expression target
	}
}

// assignRHS prints an AssignmentExpression operand (anything but a comma expression needs no parentheses).
func (p *printer) assignRHS(n *Node) {
	if n.Is(",") {
		p.w("(")
		p.expr(n)
		p.w(")")
		return
	}
	p.expr(n)
}

// operand prints a sub-expression of an operator: atoms, calls, member accesses and array literals are printed
// bare, everything else in parentheses.
func (p *printer) operand(n *Node) {
	if n.Atom || n.Is("call") || n.Is(".") || n.Is("[]") || n.Is("arr") || n.Is("evalstr") || n.Is("tpl") {
		p.expr(n)
		return
	}
	p.w("(")
	p.expr(n)
	p.w(")")
}

func (p *printer) args(list []*Node) {
	p.w("(")
	for i, a := range list {
		if i > 0 {
			p.w(", ")
		}
		if a.Is("spread") {
			p.w("...")
			p.assignRHS(a.Kids[0])
		} else {
			p.assignRHS(a)
		}
	}
	p.w(")")
}

func (p *printer) funcBody(list []*Node) {
	p.w("{ ")
	for _, s := range list {
		p.stmt(s, 0)
		p.w(" ")
	}
	p.w("}")
}

func (p *printer) expr(n *Node) {
	if n.Atom {
		p.w(n.Op)
		return
	}
	op := n.Op
	switch {
	case unaryOps[op] != "":
		p.w(unaryOps[op])
		k := n.Kids[0]
		if k.IsNum() && (op == "neg" || op == "pos") || k.Atom {
			p.expr(k)
		} else {
			p.operand(k)
		}
		return
	case updateOps[op]:
		switch op {
		case "++pre":
			p.w("++")
			p.pattern(n.Kids[0])
		case "--pre":
			p.w("--")
			p.pattern(n.Kids[0])
		case "post++":
			p.pattern(n.Kids[0])
			p.w("++")
		case "post--":
			p.pattern(n.Kids[0])
			p.w("--")
		}
		return
	case binaryOps[op] || logicalOps[op]:
		p.operand(n.Kids[0])
		p.w(" ", op, " ")
		p.operand(n.Kids[1])
		return
	case assignOps[op]:
		p.pattern(n.Kids[0])
		p.w(" ", op, " ")
		p.assignRHS(n.Kids[1])
		return
	}
	switch op {
	case "?:":
		p.operand(n.Kids[0])
		p.w(" ? ")
		p.operand(n.Kids[1])
		p.w(" : ")
		p.operand(n.Kids[2])
	case ",":
		for i, k := range n.Kids {
			if i > 0 {
				p.w(", ")
			}
			p.assignRHS(k)
		}
	case ".":
		o := n.Kids[0]
		if o.IsNum() {
			p.w("(", o.Op, ")")
		} else {
			p.operand(o)
		}
		p.w(".", n.Kids[1].Op)
	case "[]":
		o := n.Kids[0]
		p.operand(o)
		p.w("[")
		p.expr(n.Kids[1])
		p.w("]")
	case "call":
		p.operand(n.Kids[0])
		p.args(n.Kids[1:])
	case "new":
		p.w("new ")
		f := n.Kids[0]
		if f.Atom {
			p.expr(f)
		} else {
			p.w("(")
			p.expr(f)
			p.w(")")
		}
		p.args(n.Kids[1:])
	case "super":
		p.w("super")
		p.args(n.Kids)
	case "superdot":
		p.w("super.", n.Kids[0].Op)
	case "func":
		p.w("function")
		if !n.Kids[0].IsNone() {
			p.w(" ", n.Kids[0].Op)
		}
		p.params(n.Kids[1])
		p.w(" ")
		p.funcBody(n.Kids[2:])
	case "arrow":
		p.params(n.Kids[0])
		p.w(" => ")
		p.funcBody(n.Kids[1:])
	case "arrowe":
		p.params(n.Kids[0])
		p.w(" => ")
		p.operand(n.Kids[1])
	case "obj":
		p.w("{")
		for i, pr := range n.Kids {
			if i > 0 {
				p.w(", ")
			}
			switch pr.Op {
			case "prop":
				p.key(pr.Kids[0])
				p.w(": ")
				p.assignRHS(pr.Kids[1])
			case "cprop":
				p.w("[")
				p.expr(pr.Kids[0])
				p.w("]: ")
				p.assignRHS(pr.Kids[1])
			case "get":
				p.w("get ")
				p.key(pr.Kids[0])
				p.w("() ")
				p.funcBody(pr.Kids[1:])
			case "set":
				p.w("set ")
				p.key(pr.Kids[0])
				p.w("(")
				p.param(pr.Kids[1])
				p.w(") ")
				p.funcBody(pr.Kids[2:])
			case "method":
				p.key(pr.Kids[0])
				p.params(pr.Kids[1])
				p.w(" ")
				p.funcBody(pr.Kids[2:])
			case "short":
				p.w(pr.Kids[0].Op)
			case "spread":
				p.w("...")
				p.assignRHS(pr.Kids[0])
			default:
				panic("irjs.Print: bad property " + pr.String())
			}
		}
		p.w("}")
	case "arr":
		p.w("[")
		for i, e := range n.Kids {
			if i > 0 {
				p.w(", ")
			}
			switch {
			case e.IsNone():
			case e.Is("spread"):
				p.w("...")
				p.assignRHS(e.Kids[0])
			default:
				p.assignRHS(e)
			}
		}
		if len(n.Kids) > 0 && n.Kids[len(n.Kids)-1].IsNone() {
			p.w(",")
		}
		p.w("]")
	case "class":
		p.class(n, 0)
	case "tpl":
		p.w("`")
		for _, k := range n.Kids {
			if k.IsStr() {
				p.w(k.StrVal())
			} else {
				p.w("${")
				p.expr(k)
				p.w("}")
			}
		}
		p.w("`")
	case "evalstr":
		p.w("eval(\"(\" + ")
		p.operand(n.Kids[0])
		p.w(".toString() + \")\")")
	default:
		panic("irjs.Print: not an expression: " + n.String())
	}
}

func (p *printer) class(n *Node, d int) {
	p.w("class")
	if !n.Kids[0].IsNone() {
		p.w(" ", n.Kids[0].Op)
	}
	if !n.Kids[1].IsNone() {
		p.w(" extends ")
		p.operand(n.Kids[1])
	}
	p.w(" { ")
	for _, m := range n.Kids[2:] {
		st := ""
		kind := m.Op
		if strings.HasPrefix(kind, "s") && kind != "set" {
			st = "static "
			kind = kind[1:]
		}
		p.w(st)
		switch kind {
		case "ctor":
			p.w("constructor")
			p.params(m.Kids[0])
			p.w(" ")
			p.funcBody(m.Kids[1:])
		case "method":
			p.key(m.Kids[0])
			p.params(m.Kids[1])
			p.w(" ")
			p.funcBody(m.Kids[2:])
		case "get":
			p.w("get ")
			p.key(m.Kids[0])
			p.w("() ")
			p.funcBody(m.Kids[1:])
		case "set":
			p.w("set ")
			p.key(m.Kids[0])
			p.w("(")
			p.param(m.Kids[1])
			p.w(") ")
			p.funcBody(m.Kids[2:])
		case "field":
			p.key(m.Kids[0])
			if len(m.Kids) > 1 && !m.Kids[1].IsNone() {
				p.w(" = ")
				p.assignRHS(m.Kids[1])
			}
			p.w(";")
		default:
			panic("irjs.Print: bad class member " + m.String())
		}
		p.w(" ")
	}
	p.w("}")
}
