// Package irjs is the reference side of check C02: a program IR for a JavaScript subset (Node, an
// S-expression shaped Go tree), a printer that renders an IR tree as JavaScript source (Print), and a
// definitional environment-record interpreter (Interp) written directly from the ECMA-262 evaluation rules.
//
// The interpreter decides scoping (hoisting, TDZ, per-iteration bindings, closures, parameter scopes, the
// arguments object), evaluation order (including the order and number of ToPrimitive / ToPropertyKey
// conversions), control flow and completion values itself. The engine under test is used ONLY as a library of
// primitive values and object primitives: one tiny pre-compiled lambda per primitive operator (applied to
// primitives only), property get/set/define, object/array allocation, error construction. It never sees an
// IR program, so no decision of the compiler (stack vs stash allocation, constant folding, putOnStack, dummy
// compilation, completion-value tracking, function prologues) can influence the reference result.
package irjs

import (
	"fmt"
	"strconv"
	"strings"
)

// Node is one IR node. An atom (identifier, literal, keyword, label) has Atom=true and its text in Op; a
// compound node has the construct name in Op and its operands in Kids. See the table in print.go for the
// constructs and their operand layout.
type Node struct {
	Op   string
	Atom bool
	Kids []*Node
}

// None is the atom that stands for an absent optional operand.
const None = "_"

func A(s string) *Node              { return &Node{Op: s, Atom: true} }
func N(op string, k ...*Node) *Node { return &Node{Op: op, Kids: k} }

func (n *Node) IsNone() bool { return n == nil || n.Atom && n.Op == None }
func (n *Node) Is(op string) bool {
	return n != nil && !n.Atom && n.Op == op
}
func (n *Node) IsAtom(s string) bool { return n != nil && n.Atom && n.Op == s }

// IsNum / IsStr / IsIdent classify atoms.
func (n *Node) IsNum() bool {
	if n == nil || !n.Atom || n.Op == "" {
		return false
	}
	c := n.Op[0]
	return c >= '0' && c <= '9' || c == '.'
}
func (n *Node) IsStr() bool { return n != nil && n.Atom && n.Op != "" && n.Op[0] == '"' }
func (n *Node) IsKeywordLit() bool {
	if n == nil || !n.Atom {
		return false
	}
	switch n.Op {
	case "true", "false", "null", "this":
		return true
	}
	return false
}
func (n *Node) IsIdent() bool {
	return n != nil && n.Atom && n.Op != None && !n.IsNum() && !n.IsStr() && !n.IsKeywordLit()
}

// StrVal returns the value of a string atom.
func (n *Node) StrVal() string {
	s, err := strconv.Unquote(n.Op)
	if err != nil {
		panic("irjs: bad string atom " + n.Op)
	}
	return s
}

func Str(s string) *Node { return A(strconv.Quote(s)) }

// Clone makes a deep copy.
func (n *Node) Clone() *Node {
	if n == nil {
		return nil
	}
	c := &Node{Op: n.Op, Atom: n.Atom}
	if len(n.Kids) > 0 {
		c.Kids = make([]*Node, len(n.Kids))
		for i, k := range n.Kids {
			c.Kids[i] = k.Clone()
		}
	}
	return c
}

// Size is the number of nodes (atoms included).
func (n *Node) Size() int {
	if n == nil {
		return 0
	}
	s := 1
	for _, k := range n.Kids {
		s += k.Size()
	}
	return s
}

// String renders the S-expression form (the serialisation used in replay files and samples).
func (n *Node) String() string {
	var sb strings.Builder
	n.write(&sb)
	return sb.String()
}

func (n *Node) write(sb *strings.Builder) {
	if n == nil {
		sb.WriteString(None)
		return
	}
	if n.Atom {
		sb.WriteString(n.Op)
		return
	}
	sb.WriteByte('(')
	sb.WriteString(n.Op)
	for _, k := range n.Kids {
		sb.WriteByte(' ')
		k.write(sb)
	}
	sb.WriteByte(')')
}

// Parse reads the S-expression form.
func Parse(s string) (*Node, error) {
	p := &sparser{s: s}
	n, err := p.node()
	if err != nil {
		return nil, err
	}
	p.ws()
	if p.i != len(p.s) {
		return nil, fmt.Errorf("irjs: trailing text at %d", p.i)
	}
	return n, nil
}

func MustParse(s string) *Node {
	n, err := Parse(s)
	if err != nil {
		panic(err)
	}
	return n
}

type sparser struct {
	s string
	i int
}

func (p *sparser) ws() {
	for p.i < len(p.s) && (p.s[p.i] == ' ' || p.s[p.i] == '\n' || p.s[p.i] == '\t') {
		p.i++
	}
}

func (p *sparser) token() (string, error) {
	p.ws()
	st := p.i
	if p.i < len(p.s) && p.s[p.i] == '"' {
		p.i++
		for p.i < len(p.s) && p.s[p.i] != '"' {
			if p.s[p.i] == '\\' {
				p.i++
			}
			p.i++
		}
		if p.i >= len(p.s) {
			return "", fmt.Errorf("irjs: unterminated string at %d", st)
		}
		p.i++
		return p.s[st:p.i], nil
	}
	for p.i < len(p.s) {
		c := p.s[p.i]
		if c == ' ' || c == '\n' || c == '\t' || c == '(' || c == ')' {
			break
		}
		p.i++
	}
	if st == p.i {
		return "", fmt.Errorf("irjs: token expected at %d", st)
	}
	return p.s[st:p.i], nil
}

func (p *sparser) node() (*Node, error) {
	p.ws()
	if p.i >= len(p.s) {
		return nil, fmt.Errorf("irjs: unexpected end")
	}
	if p.s[p.i] != '(' {
		t, err := p.token()
		if err != nil {
			return nil, err
		}
		return A(t), nil
	}
	p.i++
	op, err := p.token()
	if err != nil {
		return nil, err
	}
	n := &Node{Op: op}
	for {
		p.ws()
		if p.i >= len(p.s) {
			return nil, fmt.Errorf("irjs: missing ')'")
		}
		if p.s[p.i] == ')' {
			p.i++
			return n, nil
		}
		k, err := p.node()
		if err != nil {
			return nil, err
		}
		n.Kids = append(n.Kids, k)
	}
}

// Walk calls f for n and every descendant (pre-order); if f returns false the children are skipped.
func (n *Node) Walk(f func(*Node) bool) {
	if n == nil {
		return
	}
	if !f(n) {
		return
	}
	for _, k := range n.Kids {
		k.Walk(f)
	}
}
