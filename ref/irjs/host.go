package irjs

import (
	"math"
	"strconv"
	"strings"

	"github.com/dop251/goja"
)

// Host is the observable environment shared by both sides of the check: a runtime with the host functions
//
//	log(x)   records Render(x) and returns x
//	mk(k)    a fresh object whose valueOf logs "v:k" and returns k, whose toString logs "s:k" and returns "s"+k
//	mko(k)   like mk, but valueOf returns an object (so ToPrimitive falls through to toString)
//	thr(k)   logs "t:k" and throws k
//	it(n)    a fresh iterable producing 1..n whose iterator logs "next" / "return"
//
// all implemented as Go natives (so that no compiled code is involved in producing the log).
type Host struct {
	RT  *goja.Runtime
	Log []string
}

func NewHost() *Host {
	h := &Host{RT: goja.New()}
	h.install()
	return h
}

func (h *Host) logf(s string) { h.Log = append(h.Log, s) }

func (h *Host) install() {
	rt := h.RT
	rt.Set("log", func(call goja.FunctionCall) goja.Value {
		v := call.Argument(0)
		h.logf(Render(v))
		return v
	})
	mk := func(valueOfObject bool) func(call goja.FunctionCall) goja.Value {
		return func(call goja.FunctionCall) goja.Value {
			k := call.Argument(0)
			ks := Render(k)
			o := rt.NewObject()
			o.Set("valueOf", func(goja.FunctionCall) goja.Value {
				h.logf("v:" + ks)
				if valueOfObject {
					return rt.NewObject()
				}
				return k
			})
			o.Set("toString", func(goja.FunctionCall) goja.Value {
				h.logf("s:" + ks)
				return rt.ToValue("s" + k.String())
			})
			return o
		}
	}
	rt.Set("mk", mk(false))
	rt.Set("mko", mk(true))
	rt.Set("thr", func(call goja.FunctionCall) goja.Value {
		k := call.Argument(0)
		h.logf("t:" + Render(k))
		panic(k)
	})
	rt.Set("it", func(call goja.FunctionCall) goja.Value {
		n := int(call.Argument(0).ToInteger())
		o := rt.NewObject()
		o.SetSymbol(goja.SymIterator, func(goja.FunctionCall) goja.Value {
			h.logf("iter")
			i := 0
			itr := rt.NewObject()
			itr.Set("next", func(goja.FunctionCall) goja.Value {
				h.logf("next")
				r := rt.NewObject()
				if i < n {
					i++
					r.Set("value", i)
					r.Set("done", false)
				} else {
					r.Set("value", goja.Undefined())
					r.Set("done", true)
				}
				return r
			})
			itr.Set("return", func(goja.FunctionCall) goja.Value {
				h.logf("return")
				return rt.NewObject()
			})
			return itr
		})
		return o
	})
}

// HostNames are the global names installed by a Host (programs must not declare them).
var HostNames = []string{"log", "mk", "mko", "thr", "it"}

// Render gives the canonical text of a value as it appears in logs, completion values and exception payloads.
// It never runs script code: objects are rendered by kind only (functions, errors by constructor name, arrays
// by their elements, everything else as "object").
func Render(v goja.Value) string {
	var sb strings.Builder
	render(&sb, v, 0)
	return sb.String()
}

func render(sb *strings.Builder, v goja.Value, depth int) {
	if v == nil {
		sb.WriteString("<nil>")
		return
	}
	if goja.IsUndefined(v) {
		sb.WriteString("undefined")
		return
	}
	if goja.IsNull(v) {
		sb.WriteString("null")
		return
	}
	switch x := v.(type) {
	case *goja.Symbol:
		sb.WriteString("symbol")
		return
	case *goja.Object:
		if _, ok := goja.AssertFunction(x); ok {
			sb.WriteString("function")
			return
		}
		switch x.ClassName() {
		case "Error":
			sb.WriteString("error:")
			name := "?"
			if nv := x.Get("name"); nv != nil {
				name = nv.String()
			}
			sb.WriteString(name)
			return
		case "Array":
			if depth >= 3 {
				sb.WriteString("[...]")
				return
			}
			sb.WriteByte('[')
			n := 0
			if lv := x.Get("length"); lv != nil {
				n = int(lv.ToInteger())
			}
			for i := 0; i < n && i < 8; i++ {
				if i > 0 {
					sb.WriteByte(',')
				}
				ev := x.Get(strconv.Itoa(i))
				if ev == nil {
					sb.WriteString("<hole>")
				} else {
					render(sb, ev, depth+1)
				}
			}
			if n > 8 {
				sb.WriteString(",...")
			}
			sb.WriteByte(']')
			return
		}
		sb.WriteString("object")
		return
	}
	switch x := v.Export().(type) {
	case bool:
		if x {
			sb.WriteString("true")
		} else {
			sb.WriteString("false")
		}
	case int64:
		sb.WriteString(strconv.FormatInt(x, 10))
	case float64:
		switch {
		case x == 0 && math.Signbit(x):
			sb.WriteString("-0")
		case math.IsNaN(x):
			sb.WriteString("NaN")
		case math.IsInf(x, 1):
			sb.WriteString("Infinity")
		case math.IsInf(x, -1):
			sb.WriteString("-Infinity")
		case x == math.Trunc(x) && math.Abs(x) < 1e15:
			sb.WriteString(strconv.FormatInt(int64(x), 10))
		default:
			sb.WriteString(strconv.FormatFloat(x, 'g', -1, 64))
		}
	case string:
		sb.WriteString(strconv.Quote(x))
	default:
		sb.WriteString(v.String())
	}
}
