package irjs

import (
	"strconv"

	"github.com/dop251/goja"
)

// ---------- references ----------

type refKind uint8

const (
	rEnv refKind = iota
	rUnresolvable
	rProp
	rSuper
)

type Ref struct {
	kind    refKind
	name    string
	b       *Binding
	base    goja.Value
	key     goja.Value // property key (string or symbol primitive)
	thisVal goja.Value // super references
}

func (in *Interp) resolveBinding(name string, env *Env) Ref {
	if b := env.lookup(name); b != nil {
		return Ref{kind: rEnv, name: name, b: b}
	}
	// global object (host functions, undefined, Object, ...)
	if v := in.globalObj.Get(name); v != nil {
		return Ref{kind: rProp, name: name, base: in.globalObj, key: in.str(name)}
	}
	return Ref{kind: rUnresolvable, name: name}
}

func (in *Interp) getValue(r Ref) goja.Value {
	switch r.kind {
	case rEnv:
		if !r.b.init {
			in.throwRef("Cannot access a variable before initialization")
		}
		return r.b.val
	case rUnresolvable:
		in.throwRef("%s is not defined", r.name)
	case rProp:
		return in.getV(r.base, r.key)
	case rSuper:
		return in.prim("superGet", r.base, r.key, r.thisVal)
	}
	panic("unreachable")
}

func (in *Interp) putValue(r Ref, v goja.Value, env *Env) {
	switch r.kind {
	case rEnv:
		b := r.b
		if !b.init {
			in.throwRef("Cannot access a variable before initialization")
		}
		if !b.mutable {
			if b.strictImm || env.strict {
				in.throwType("Assignment to constant variable.")
			}
			return
		}
		b.val = v
		if a := b.alias; a != nil && a.on {
			in.prim("set", a.obj, in.rt.ToValue(a.idx), v)
		}
	case rUnresolvable:
		if env.strict {
			in.throwRef("%s is not defined", r.name)
		}
		in.globalObj.Set(r.name, v)
		in.createdGlob = append(in.createdGlob, r.name)
	case rProp:
		in.setV(r.base, r.key, v, env.strict)
	case rSuper:
		ok := in.prim("superSet", r.base, r.key, v, r.thisVal)
		if !ok.ToBoolean() && env.strict {
			in.throwType("Cannot assign to read only property")
		}
	}
}

// getV is GetV / [[Get]]: the object primitive of the engine, plus the mapped-arguments exotic behaviour which the
// interpreter implements itself.
func (in *Interp) getV(base, key goja.Value) goja.Value {
	if goja.IsUndefined(base) || goja.IsNull(base) {
		in.throwType("Cannot read property '%s' of %s", key.String(), base.String())
	}
	return in.prim("get", base, key)
}

func (in *Interp) setV(base, key, v goja.Value, strict bool) {
	if goja.IsUndefined(base) || goja.IsNull(base) {
		in.throwType("Cannot set property '%s' of %s", key.String(), base.String())
	}
	if o, ok := base.(*goja.Object); ok {
		if m := in.argsMaps[o]; m != nil {
			if idx, ok := arrayIndex(key); ok && idx < len(m.bind) && m.bind[idx] != nil && m.bind[idx].alias.on {
				m.bind[idx].val = v
			}
		}
	}
	if strict {
		in.prim("setS", base, key, v)
	} else {
		in.prim("set", base, key, v)
	}
}

func arrayIndex(key goja.Value) (int, bool) {
	if _, ok := key.(*goja.Symbol); ok {
		return 0, false
	}
	s := key.String()
	if s == "" || len(s) > 9 || (len(s) > 1 && s[0] == '0') {
		return 0, false
	}
	n := 0
	for _, c := range s {
		if c < '0' || c > '9' {
			return 0, false
		}
		n = n*10 + int(c-'0')
	}
	return n, true
}

func (in *Interp) str(s string) goja.Value {
	if v, ok := in.strCache[s]; ok {
		return v
	}
	v := in.rt.ToValue(s)
	in.strCache[s] = v
	return v
}

func (in *Interp) num(lit string) goja.Value {
	if v, ok := in.numCache[lit]; ok {
		return v
	}
	var v goja.Value
	if i, err := strconv.ParseInt(lit, 10, 64); err == nil {
		v = in.rt.ToValue(i)
	} else if f, err := strconv.ParseFloat(lit, 64); err == nil {
		v = in.rt.ToValue(f)
	} else {
		panic("irjs: bad number literal " + lit)
	}
	in.numCache[lit] = v
	return v
}

// keyOf converts a literal property key atom (identifier, string or number) to a property key value.
func (in *Interp) keyOf(k *Node) goja.Value {
	switch {
	case k.IsStr():
		return in.str(k.StrVal())
	case k.IsNum():
		return in.prim("toStr", in.num(k.Op))
	}
	return in.str(k.Op)
}

func isObject(v goja.Value) bool { _, ok := v.(*goja.Object); return ok }

func isCallable(v goja.Value) bool {
	_, ok := goja.AssertFunction(v)
	return ok
}

// ---------- conversions decided by the interpreter ----------

func (in *Interp) toPrimitive(v goja.Value, hint string) goja.Value {
	o, ok := v.(*goja.Object)
	if !ok {
		return v
	}
	if isCallable(o) {
		// the source text of a function (Function.prototype.toString) is outside the modelled subset
		unsupported("conversion of a function to a primitive")
	}
	ex := in.getV(o, in.symToPrim)
	if !goja.IsUndefined(ex) && !goja.IsNull(ex) {
		if !isCallable(ex) {
			in.throwType("Symbol.toPrimitive is not a function")
		}
		r := in.call(ex, o, []goja.Value{in.str(hint)})
		if !isObject(r) {
			return r
		}
		in.throwType("Cannot convert object to primitive value")
	}
	order := [2]string{"valueOf", "toString"}
	if hint == "string" {
		order = [2]string{"toString", "valueOf"}
	}
	for _, name := range order {
		m := in.getV(o, in.str(name))
		if isCallable(m) {
			r := in.call(m, o, nil)
			if !isObject(r) {
				return r
			}
		}
	}
	in.throwType("Cannot convert object to primitive value")
	panic("unreachable")
}

// toNumericPrim: ToPrimitive(v, number); a Symbol result raises the TypeError of ToNumber right away.
func (in *Interp) toNumericPrim(v goja.Value) goja.Value {
	p := in.toPrimitive(v, "number")
	if _, ok := p.(*goja.Symbol); ok {
		in.prim("pos", p)
	}
	return p
}

func (in *Interp) toPropertyKey(v goja.Value) goja.Value {
	p := in.toPrimitive(v, "string")
	if _, ok := p.(*goja.Symbol); ok {
		return p
	}
	if _, ok := p.Export().(string); ok {
		return p
	}
	return in.prim("toStr", p)
}

func (in *Interp) toStringV(v goja.Value) goja.Value {
	p := in.toPrimitive(v, "string")
	return in.prim("tplStr", p)
}

// ---------- expressions ----------

func (in *Interp) evalNamed(n *Node, env *Env, name string) goja.Value {
	return in.evalExpr(n, env)
}

func (in *Interp) thisValue(env *Env) goja.Value {
	for e := env; e != nil; e = e.outer {
		if e.fn != nil {
			if !e.fn.thisInit {
				in.throwRef("Must call super constructor in derived class before accessing 'this' or returning from derived constructor")
			}
			return e.fn.thisVal
		}
	}
	unsupported("top-level this")
	panic("unreachable")
}

func (in *Interp) funcCtxOf(env *Env) *funcCtx {
	for e := env; e != nil; e = e.outer {
		if e.fn != nil {
			return e.fn
		}
	}
	return nil
}

func (in *Interp) evalRef(n *Node, env *Env) Ref {
	switch {
	case n.Atom:
		if !n.IsIdent() {
			unsupported("reference to " + n.Op)
		}
		return in.resolveBinding(n.Op, env)
	case n.Is("."):
		base := in.evalExpr(n.Kids[0], env)
		if goja.IsUndefined(base) || goja.IsNull(base) {
			in.throwType("Cannot read property '%s' of %s", n.Kids[1].Op, base.String())
		}
		return Ref{kind: rProp, base: base, key: in.str(n.Kids[1].Op)}
	case n.Is("[]"):
		base := in.evalExpr(n.Kids[0], env)
		kv := in.evalExpr(n.Kids[1], env)
		if goja.IsUndefined(base) || goja.IsNull(base) {
			in.throwType("Cannot read property of %s", base.String())
		}
		return Ref{kind: rProp, base: base, key: in.toPropertyKey(kv)}
	case n.Is("superdot"):
		fc := in.funcCtxOf(env)
		if fc == nil || fc.cl.home == nil {
			unsupported("super outside method")
		}
		this := in.thisValue(env)
		proto := in.prim("getProto", fc.cl.home)
		return Ref{kind: rSuper, base: proto, key: in.str(n.Kids[0].Op), thisVal: this}
	}
	unsupported("reference " + n.Op)
	panic("unreachable")
}

func (in *Interp) evalExpr(n *Node, env *Env) goja.Value {
	in.step()
	if n.Atom {
		switch {
		case n.IsNum():
			return in.num(n.Op)
		case n.IsStr():
			return in.str(n.StrVal())
		}
		switch n.Op {
		case "true":
			return in.vTrue
		case "false":
			return in.vFalse
		case "null":
			return goja.Null()
		case "this":
			return in.thisValue(env)
		case None:
			unsupported("absent expression")
		}
		return in.getValue(in.resolveBinding(n.Op, env))
	}
	op := n.Op
	switch {
	case binaryOps[op]:
		l := in.evalExpr(n.Kids[0], env)
		r := in.evalExpr(n.Kids[1], env)
		return in.binary(op, l, r)
	case assignOps[op]:
		return in.evalAssign(n, env)
	case updateOps[op]:
		ref := in.evalRef(n.Kids[0], env)
		old := in.prim("pos", in.toNumericPrim(in.getValue(ref)))
		var nv goja.Value
		if op == "++pre" || op == "post++" {
			nv = in.prim("inc", old)
		} else {
			nv = in.prim("dec", old)
		}
		in.putValue(ref, nv, env)
		if op == "post++" || op == "post--" {
			return old
		}
		return nv
	}
	switch op {
	case "&&":
		l := in.evalExpr(n.Kids[0], env)
		if !l.ToBoolean() {
			return l
		}
		return in.evalExpr(n.Kids[1], env)
	case "||":
		l := in.evalExpr(n.Kids[0], env)
		if l.ToBoolean() {
			return l
		}
		return in.evalExpr(n.Kids[1], env)
	case "??":
		l := in.evalExpr(n.Kids[0], env)
		if !goja.IsUndefined(l) && !goja.IsNull(l) {
			return l
		}
		return in.evalExpr(n.Kids[1], env)
	case "?:":
		if in.evalExpr(n.Kids[0], env).ToBoolean() {
			return in.evalExpr(n.Kids[1], env)
		}
		return in.evalExpr(n.Kids[2], env)
	case ",":
		var v goja.Value
		for _, k := range n.Kids {
			v = in.evalExpr(k, env)
		}
		return v
	case "neg", "pos", "~":
		v := in.evalExpr(n.Kids[0], env)
		return in.prim(op, in.toNumericPrim(v))
	case "!":
		if in.evalExpr(n.Kids[0], env).ToBoolean() {
			return in.vFalse
		}
		return in.vTrue
	case "void":
		in.evalExpr(n.Kids[0], env)
		return goja.Undefined()
	case "typeof":
		k := n.Kids[0]
		if k.IsIdent() {
			r := in.resolveBinding(k.Op, env)
			if r.kind == rUnresolvable {
				return in.str("undefined")
			}
			return in.prim("typeof", in.getValue(r))
		}
		return in.prim("typeof", in.evalExpr(k, env))
	case "delete":
		k := n.Kids[0]
		if k.Is(".") || k.Is("[]") {
			r := in.evalRef(k, env)
			if o, ok := r.base.(*goja.Object); ok {
				if m := in.argsMaps[o]; m != nil {
					if idx, ok := arrayIndex(r.key); ok && idx < len(m.bind) && m.bind[idx] != nil {
						m.bind[idx].alias.on = false
					}
				}
			}
			if env.strict {
				return in.prim("delS", r.base, r.key)
			}
			return in.prim("del", r.base, r.key)
		}
		unsupported("delete of a non-member expression")
	case ".", "[]", "superdot":
		return in.getValue(in.evalRef(n, env))
	case "call":
		return in.evalCall(n, env)
	case "new":
		ctor := in.evalExpr(n.Kids[0], env)
		args := in.evalArgs(n.Kids[1:], env)
		return in.construct(ctor, args, nil)
	case "super":
		return in.evalSuperCall(n, env)
	case "func":
		return in.functionExpression(n, env)
	case "arrow", "arrowe":
		return in.makeClosure(n, env, fkArrow, env.strict, "").obj
	case "obj":
		return in.evalObjectLiteral(n, env)
	case "arr":
		return in.evalArrayLiteral(n, env)
	case "class":
		name := ""
		if !n.Kids[0].IsNone() {
			name = n.Kids[0].Op
		}
		return in.classDefinition(n, env, name)
	case "tpl":
		acc := in.str("")
		for _, k := range n.Kids {
			if k.IsStr() {
				acc = in.prim("+", acc, in.str(k.StrVal()))
			} else {
				s := in.toStringV(in.evalExpr(k, env))
				acc = in.prim("+", acc, s)
			}
		}
		return acc
	}
	unsupported("expression " + op)
	panic("unreachable")
}

// binary applies a binary operator to two values; the conversions of object operands (order, hints, count)
// are performed here, the primitive operation by the engine's lambda.
func (in *Interp) binary(op string, l, r goja.Value) goja.Value {
	switch op {
	case "+":
		lp := in.toPrimitive(l, "default")
		rp := in.toPrimitive(r, "default")
		return in.prim(op, lp, rp)
	case "-", "*", "/", "%", "**", "<<", ">>", ">>>", "&", "|", "^":
		lp := in.toNumericPrim(l)
		rp := in.toNumericPrim(r)
		return in.prim(op, lp, rp)
	case "<", ">", "<=", ">=":
		lp := in.toPrimitive(l, "number")
		rp := in.toPrimitive(r, "number")
		return in.prim(op, lp, rp)
	case "==", "!=":
		lo, ro := isObject(l), isObject(r)
		nullish := func(v goja.Value) bool { return goja.IsUndefined(v) || goja.IsNull(v) }
		if lo && !ro && !nullish(r) {
			l = in.toPrimitive(l, "default")
		} else if ro && !lo && !nullish(l) {
			r = in.toPrimitive(r, "default")
		}
		return in.prim(op, l, r)
	case "===", "!==", "instanceof":
		return in.prim(op, l, r)
	case "in":
		if !isObject(r) {
			in.throwType("Cannot use 'in' operator to search for a key in a non-object")
		}
		return in.prim("has", in.toPropertyKey(l), r)
	}
	unsupported("binary " + op)
	panic("unreachable")
}

func isPattern(n *Node) bool { return n.Is("opat") || n.Is("apat") }

func (in *Interp) evalAssign(n *Node, env *Env) goja.Value {
	op := n.Op
	target := n.Kids[0]
	if op == "=" {
		if isPattern(target) {
			rv := in.evalExpr(n.Kids[1], env)
			in.assignTarget(target, rv, env)
			return rv
		}
		ref := in.evalRef(target, env)
		name := ""
		if target.Atom {
			name = target.Op
		}
		rv := in.evalNamed(n.Kids[1], env, name)
		in.putValue(ref, rv, env)
		return rv
	}
	ref := in.evalRef(target, env)
	lv := in.getValue(ref)
	switch op {
	case "&&=":
		if !lv.ToBoolean() {
			return lv
		}
	case "||=":
		if lv.ToBoolean() {
			return lv
		}
	case "??=":
		if !goja.IsUndefined(lv) && !goja.IsNull(lv) {
			return lv
		}
	default:
		rv := in.evalExpr(n.Kids[1], env)
		res := in.binary(op[:len(op)-1], lv, rv)
		in.putValue(ref, res, env)
		return res
	}
	rv := in.evalExpr(n.Kids[1], env)
	in.putValue(ref, rv, env)
	return rv
}

func (in *Interp) evalArgs(list []*Node, env *Env) []goja.Value {
	var args []goja.Value
	for _, a := range list {
		if a.Is("spread") {
			v := in.evalExpr(a.Kids[0], env)
			rec := in.getIterator(v)
			for {
				x := in.iteratorStep(rec)
				if x == nil {
					break
				}
				args = append(args, x)
			}
		} else {
			args = append(args, in.evalExpr(a, env))
		}
	}
	return args
}

func (in *Interp) evalCall(n *Node, env *Env) goja.Value {
	callee := n.Kids[0]
	var f goja.Value
	var this goja.Value = goja.Undefined()
	switch {
	case callee.Is("."), callee.Is("[]"), callee.Is("superdot"):
		ref := in.evalRef(callee, env)
		f = in.getValue(ref)
		if ref.kind == rSuper {
			this = ref.thisVal
		} else {
			this = ref.base
		}
	case callee.IsIdent():
		if callee.Op == "eval" {
			unsupported("eval")
		}
		f = in.getValue(in.resolveBinding(callee.Op, env))
	default:
		f = in.evalExpr(callee, env)
	}
	args := in.evalArgs(n.Kids[1:], env)
	if !isCallable(f) {
		in.throwType("%s is not a function", PrintExpr(callee))
	}
	return in.call(f, this, args)
}

// ---------- object / array literals ----------

func (in *Interp) evalObjectLiteral(n *Node, env *Env) goja.Value {
	obj := in.rt.NewObject()
	for _, pr := range n.Kids {
		switch pr.Op {
		case "prop":
			key := in.keyOf(pr.Kids[0])
			v := in.evalNamed(pr.Kids[1], env, "")
			in.prim("defData", obj, key, v, in.vTrue)
		case "cprop":
			key := in.toPropertyKey(in.evalExpr(pr.Kids[0], env))
			v := in.evalExpr(pr.Kids[1], env)
			in.prim("defData", obj, key, v, in.vTrue)
		case "short":
			v := in.getValue(in.resolveBinding(pr.Kids[0].Op, env))
			in.prim("defData", obj, in.str(pr.Kids[0].Op), v, in.vTrue)
		case "spread":
			v := in.evalExpr(pr.Kids[0], env)
			in.prim("copyProps", obj, v)
		case "method":
			cl := in.makeClosure(pr, env, fkMethod, env.strict, "")
			cl.home = obj
			in.prim("defData", obj, in.keyOf(pr.Kids[0]), cl.obj, in.vTrue)
		case "get":
			cl := in.makeClosure(pr, env, fkMethod, env.strict, "")
			cl.home = obj
			in.prim("defGet", obj, in.keyOf(pr.Kids[0]), cl.obj, in.vTrue)
		case "set":
			cl := in.makeClosure(pr, env, fkMethod, env.strict, "")
			cl.home = obj
			in.prim("defSet", obj, in.keyOf(pr.Kids[0]), cl.obj, in.vTrue)
		default:
			unsupported("property " + pr.Op)
		}
	}
	return obj
}

func (in *Interp) evalArrayLiteral(n *Node, env *Env) goja.Value {
	arr := in.prim("arr").(*goja.Object)
	idx := 0
	for _, e := range n.Kids {
		switch {
		case e.IsNone():
			idx++
		case e.Is("spread"):
			v := in.evalExpr(e.Kids[0], env)
			rec := in.getIterator(v)
			for {
				x := in.iteratorStep(rec)
				if x == nil {
					break
				}
				in.prim("defData", arr, in.rt.ToValue(idx), x, in.vTrue)
				idx++
			}
		default:
			v := in.evalExpr(e, env)
			in.prim("defData", arr, in.rt.ToValue(idx), v, in.vTrue)
			idx++
		}
	}
	in.prim("setLen", arr, in.rt.ToValue(idx))
	return arr
}

// ---------- iterators ----------

type iterRec struct {
	it   goja.Value
	next goja.Value
	done bool
}

func (in *Interp) getIterator(v goja.Value) *iterRec {
	if goja.IsUndefined(v) || goja.IsNull(v) {
		in.throwType("%s is not iterable", v.String())
	}
	m := in.getV(v, in.symIterator)
	if goja.IsUndefined(m) || goja.IsNull(m) || !isCallable(m) {
		in.throwType("object is not iterable")
	}
	it := in.call(m, v, nil)
	if !isObject(it) {
		in.throwType("Result of the Symbol.iterator method is not an object")
	}
	next := in.getV(it, in.str("next"))
	return &iterRec{it: it, next: next}
}

// iteratorStep returns the next value or nil when the iterator is done. Any throw marks the record as done.
func (in *Interp) iteratorStep(rec *iterRec) (val goja.Value) {
	ok := false
	defer func() {
		if !ok {
			rec.done = true
		}
	}()
	if !isCallable(rec.next) {
		in.throwType("iterator.next is not a function")
	}
	r := in.call(rec.next, rec.it, nil)
	if !isObject(r) {
		in.throwType("Iterator result is not an object")
	}
	if in.getV(r, in.str("done")).ToBoolean() {
		rec.done = true
		ok = true
		return nil
	}
	val = in.getV(r, in.str("value"))
	ok = true
	return val
}

func (in *Interp) iteratorClose(rec *iterRec, completionIsThrow bool) {
	var ret goja.Value
	thrown, threw := in.catch(func() {
		ret = in.getV(rec.it, in.str("return"))
		if goja.IsUndefined(ret) || goja.IsNull(ret) {
			ret = nil
			return
		}
		if !isCallable(ret) {
			in.throwType("iterator.return is not a function")
		}
		ret = in.call(ret, rec.it, nil)
	})
	if completionIsThrow {
		return
	}
	if threw {
		panic(&jsThrow{thrown})
	}
	if ret != nil && !isObject(ret) {
		in.throwType("iterator.return() did not return an object")
	}
}

// ---------- binding / destructuring ----------

// bindingInit is BindingInitialization: initEnv != nil initialises bindings in that environment (let / const /
// parameters / catch), initEnv == nil resolves the names and uses PutValue (var declarations).
// env is the environment in which default initialisers are evaluated and names are resolved.
func (in *Interp) bindingInit(t *Node, v goja.Value, initEnv *Env, env *Env) {
	in.destructure(t, v, env, func(name string) Ref {
		if initEnv != nil {
			b := initEnv.own(name)
			if b == nil {
				b = initEnv.lookup(name)
			}
			return Ref{kind: rEnv, name: name, b: b}
		}
		return in.resolveBinding(name, env)
	}, func(r Ref, val goja.Value) {
		if initEnv != nil {
			in.initBinding(r.b, val)
			return
		}
		in.putValue(r, val, env)
	}, true)
}

// assignTarget is DestructuringAssignmentEvaluation / PutValue on an arbitrary assignment target.
func (in *Interp) assignTarget(t *Node, v goja.Value, env *Env) {
	in.destructure(t, v, env, func(name string) Ref {
		return in.resolveBinding(name, env)
	}, func(r Ref, val goja.Value) {
		in.putValue(r, val, env)
	}, false)
}

func (in *Interp) destructure(t *Node, v goja.Value, env *Env, resolve func(string) Ref, store func(Ref, goja.Value), binding bool) {
	in.step()
	target := func(tn *Node) (Ref, bool) { // evaluates a non-pattern target to a reference
		if isPattern(tn) {
			return Ref{}, false
		}
		if tn.Atom {
			return resolve(tn.Op), true
		}
		if binding {
			unsupported("binding target " + tn.Op)
		}
		return in.evalRef(tn, env), true
	}
	finish := func(tn *Node, ref Ref, isRef bool, val goja.Value) {
		if isRef {
			store(ref, val)
		} else {
			in.destructure(tn, val, env, resolve, store, binding)
		}
	}
	switch {
	case t.Atom:
		ref := resolve(t.Op)
		store(ref, v)
	case t.Is("opat"):
		if goja.IsUndefined(v) || goja.IsNull(v) {
			in.throwType("Cannot destructure '%s' as it is %s.", v.String(), v.String())
		}
		var used []goja.Value
		for _, e := range t.Kids {
			switch e.Op {
			case "ps":
				name := e.Kids[0].Op
				ref := resolve(name)
				key := in.str(name)
				used = append(used, key)
				val := in.getV(v, key)
				if len(e.Kids) > 1 && !e.Kids[1].IsNone() && goja.IsUndefined(val) {
					val = in.evalNamed(e.Kids[1], env, name)
				}
				store(ref, val)
			case "p":
				key := in.keyOf(e.Kids[0])
				used = append(used, key)
				ref, isRef := target(e.Kids[1])
				val := in.getV(v, key)
				if len(e.Kids) > 2 && !e.Kids[2].IsNone() && goja.IsUndefined(val) {
					val = in.evalExpr(e.Kids[2], env)
				}
				finish(e.Kids[1], ref, isRef, val)
			case "rest":
				ref, isRef := target(e.Kids[0])
				if !isRef {
					unsupported("pattern as object rest target")
				}
				ex := in.prim("arr").(*goja.Object)
				for i, k := range used {
					in.prim("defData", ex, in.rt.ToValue(i), k, in.vTrue)
				}
				rest := in.prim("copyProps", in.rt.NewObject(), v, ex)
				store(ref, rest)
			default:
				unsupported("object pattern element " + e.Op)
			}
		}
	case t.Is("apat"):
		rec := in.getIterator(v)
		thrown, threw := in.catch(func() {
			for _, e := range t.Kids {
				switch {
				case e.IsNone():
					if !rec.done {
						in.iteratorStep(rec)
					}
				case e.Is("rest"):
					ref, isRef := target(e.Kids[0])
					arr := in.prim("arr").(*goja.Object)
					n := 0
					for !rec.done {
						x := in.iteratorStep(rec)
						if x == nil {
							break
						}
						in.prim("defData", arr, in.rt.ToValue(n), x, in.vTrue)
						n++
					}
					finish(e.Kids[0], ref, isRef, arr)
				default:
					tn, def := e, (*Node)(nil)
					if e.Is("def") {
						tn, def = e.Kids[0], e.Kids[1]
					}
					ref, isRef := target(tn)
					var val goja.Value = goja.Undefined()
					if !rec.done {
						if x := in.iteratorStep(rec); x != nil {
							val = x
						}
					}
					if def != nil && goja.IsUndefined(val) {
						name := ""
						if tn.Atom {
							name = tn.Op
						}
						val = in.evalNamed(def, env, name)
					}
					finish(tn, ref, isRef, val)
				}
			}
		})
		if threw {
			if !rec.done {
				in.iteratorClose(rec, true)
			}
			panic(&jsThrow{thrown})
		}
		if !rec.done {
			in.iteratorClose(rec, false)
		}
	default:
		// member expression target (assignment only)
		if binding {
			unsupported("binding target " + t.Op)
		}
		ref := in.evalRef(t, env)
		store(ref, v)
	}
}
