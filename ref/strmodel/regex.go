package strmodel

// A very small backtracking matcher for the handful of regular expressions the C06 check uses, plus the
// RegExp.prototype[@@replace] / [@@split] / [@@match] drivers of ECMA-262 written over code units.
// A pattern is given as a hand-built tree (no parser): the JS source text is kept next to it by the caller.

type ReNode interface{}

type (
	// ReChar matches one character (a code unit, or a code point in unicode mode) satisfying Pred.
	ReChar struct{ Pred func(r rune) bool }
	// ReSeq matches its parts in order.
	ReSeq []ReNode
	// ReStar matches Of greedily, at least Min times; an iteration that matches empty is rejected.
	ReStar struct {
		Of  ReNode
		Min int
	}
	// ReGroup is capturing group number Idx (1-based).
	ReGroup struct {
		Idx int
		Of  ReNode
	}
	// ReEnd is $ (no multiline flag).
	ReEnd struct{}
)

type Regexp struct {
	Root    ReNode
	NCaps   int
	Global  bool
	Unicode bool
}

type reInput struct {
	chars []rune
	pos   []int // unit index of chars[i]; pos[len(chars)] = len(units)
}

func (re *Regexp) input(s S) *reInput {
	in := &reInput{}
	if re.Unicode {
		in.chars = CodePoints(s)
		p := 0
		for _, r := range in.chars {
			in.pos = append(in.pos, p)
			if r >= 0x10000 {
				p += 2
			} else {
				p++
			}
		}
		in.pos = append(in.pos, p)
		return in
	}
	for i, c := range s {
		in.chars = append(in.chars, rune(c))
		in.pos = append(in.pos, i)
	}
	in.pos = append(in.pos, len(s))
	return in
}

// charIndex maps a unit index to the index of the character containing it.
func (in *reInput) charIndex(unit int) int {
	for i := len(in.pos) - 1; i >= 0; i-- {
		if in.pos[i] <= unit {
			return i
		}
	}
	return 0
}

type reCaps []int // 2 per group incl. group 0, char indexes, -1 = unset

func reMatch(n ReNode, in *reInput, i int, caps reCaps, k func(i int, caps reCaps) bool) bool {
	switch n := n.(type) {
	case ReChar:
		if i < len(in.chars) && n.Pred(in.chars[i]) {
			return k(i+1, caps)
		}
		return false
	case ReSeq:
		if len(n) == 0 {
			return k(i, caps)
		}
		return reMatch(n[0], in, i, caps, func(j int, c reCaps) bool { return reMatch(n[1:], in, j, c, k) })
	case ReStar:
		var loop func(i, count int, caps reCaps) bool
		loop = func(i, count int, caps reCaps) bool {
			if reMatch(n.Of, in, i, caps, func(j int, c reCaps) bool {
				if j == i {
					return false
				}
				return loop(j, count+1, c)
			}) {
				return true
			}
			if count >= n.Min {
				return k(i, caps)
			}
			return false
		}
		return loop(i, 0, caps)
	case ReGroup:
		return reMatch(n.Of, in, i, caps, func(j int, c reCaps) bool {
			c2 := append(reCaps{}, c...)
			c2[2*n.Idx], c2[2*n.Idx+1] = i, j
			return k(j, c2)
		})
	case ReEnd:
		if i == len(in.chars) {
			return k(i, caps)
		}
		return false
	}
	panic("strmodel: unknown regexp node")
}

// ReResult is one match: unit indexes of the whole match and the captures (nil = did not participate).
type ReResult struct {
	Start, End int
	Caps       []*S
}

// exec is RegExpBuiltinExec from unit index lastIndex; sticky restricts the match to start there.
func (re *Regexp) exec(s S, in *reInput, lastIndex int, sticky bool) *ReResult {
	if lastIndex > len(s) {
		return nil
	}
	for ci := in.charIndex(lastIndex); ci <= len(in.chars); ci++ {
		caps := make(reCaps, 2*(re.NCaps+1))
		for k := range caps {
			caps[k] = -1
		}
		var out reCaps
		end := -1
		if reMatch(re.Root, in, ci, caps, func(j int, c reCaps) bool { end = j; out = c; return true }) {
			res := &ReResult{Start: in.pos[ci], End: in.pos[end]}
			for g := 1; g <= re.NCaps; g++ {
				if out[2*g] < 0 {
					res.Caps = append(res.Caps, nil)
				} else {
					v := append(S{}, s[in.pos[out[2*g]]:in.pos[out[2*g+1]]]...)
					res.Caps = append(res.Caps, &v)
				}
			}
			return res
		}
		if sticky {
			return nil
		}
	}
	return nil
}

// AdvanceStringIndex of ECMA-262.
func AdvanceStringIndex(s S, index int, unicode bool) int {
	if !unicode || index+1 >= len(s) {
		return index + 1
	}
	if IsHigh(s[index]) && IsLow(s[index+1]) {
		return index + 2
	}
	return index + 1
}

// Matches collects the results RegExp.prototype[@@replace] iterates over (one for a non-global regexp).
func (re *Regexp) Matches(s S) []*ReResult {
	in := re.input(s)
	var results []*ReResult
	lastIndex := 0
	for {
		r := re.exec(s, in, lastIndex, false)
		if r == nil {
			break
		}
		results = append(results, r)
		if !re.Global {
			break
		}
		lastIndex = r.End
		if r.End == r.Start {
			lastIndex = AdvanceStringIndex(s, lastIndex, re.Unicode)
		}
	}
	return results
}

// ReplaceRe is RegExp.prototype[@@replace]; exactly one of template / fn is used (fn if non-nil).
func (re *Regexp) ReplaceRe(s S, template S, fn func(r *ReResult) S) S {
	acc := S{}
	next := 0
	for _, r := range re.Matches(s) {
		matched := s[r.Start:r.End]
		var repl S
		if fn != nil {
			repl = fn(r)
		} else {
			repl = GetSubstitution(matched, s, r.Start, r.Caps, template)
		}
		if r.Start >= next {
			acc = append(acc, s[next:r.Start]...)
			acc = append(acc, repl...)
			next = r.End
		}
	}
	return append(acc, s[next:]...)
}

// SplitRe is RegExp.prototype[@@split] without limit; nil elements are undefined (unmatched captures).
func (re *Regexp) SplitRe(s S) []*S {
	in := re.input(s)
	res := []*S{}
	push := func(v S) { c := append(S{}, v...); res = append(res, &c) }
	size := len(s)
	if size == 0 {
		if re.exec(s, in, 0, true) != nil {
			return res
		}
		push(s)
		return res
	}
	p, q := 0, 0
	for q < size {
		z := re.exec(s, in, q, true)
		if z == nil {
			q = AdvanceStringIndex(s, q, re.Unicode)
			continue
		}
		e := min(z.End, size)
		if e == p {
			q = AdvanceStringIndex(s, q, re.Unicode)
			continue
		}
		push(s[p:q])
		p = e
		res = append(res, z.Caps...)
		q = p
	}
	push(s[p:])
	return res
}

// JoinOpt is Array.prototype.join where nil elements are undefined (rendered as empty).
func JoinOpt(parts []*S, sep S) S {
	res := S{}
	for i, p := range parts {
		if i > 0 {
			res = append(res, sep...)
		}
		if p != nil {
			res = append(res, (*p)...)
		}
	}
	return res
}
