package strmodel

import "testing"

// Spot checks of the model against results known from the specification / mainstream engines.

func u(s string) S { return FromGo(s) }

func eq(t *testing.T, what string, got, want S) {
	t.Helper()
	if !Equal(got, want) {
		t.Errorf("%s: got %v want %v", what, got, want)
	}
}

func TestCaseAndNormalize(t *testing.T) {
	eq(t, "ß upper", ToUpper(u("ß")), u("SS"))
	eq(t, "ǆ upper", ToUpper(S{0x1C6}), S{0x1C4})
	eq(t, "ohm lower", ToLower(S{0x2126}), S{0x3C9})
	eq(t, "deseret upper", ToUpper(S{0xD801, 0xDC28}), S{0xD801, 0xDC00})
	eq(t, "lone upper", ToUpper(S{'a', 0xD801}), S{'A', 0xD801})
	eq(t, "lone lower", ToLower(S{0xDC28, 'A', 0xD801}), S{0xDC28, 'a', 0xD801})
	n, _ := Normalize(S{0x2126}, "NFC")
	eq(t, "ohm NFC", n, S{0x3A9})
	n, _ = Normalize(S{0xE9, 0xD801, 'e', 0x301}, "NFD")
	eq(t, "NFD around a lone surrogate", n, S{'e', 0x301, 0xD801, 'e', 0x301})
	n, _ = Normalize(S{'e', 0x301, 0xDC28}, "NFC")
	eq(t, "NFC before a lone surrogate", n, S{0xE9, 0xDC28})
	n, _ = Normalize(S{0xA0}, "NFKC")
	eq(t, "NBSP NFKC", n, S{' '})
	if _, k := Normalize(S{'a'}, "nfc"); k != Throws {
		t.Error("bad form must throw")
	}
}

func TestSliceFamily(t *testing.T) {
	s := u("abcde")
	eq(t, "slice(-2)", Slice(s, -2, None), u("de"))
	eq(t, "slice(1,-1)", Slice(s, 1, Int(-1)), u("bcd"))
	eq(t, "slice(3,1)", Slice(s, 3, Int(1)), u(""))
	eq(t, "substring(3,1)", Substring(s, 3, Int(1)), u("bc"))
	eq(t, "substr(-2,1)", Substr(s, -2, Int(1)), u("d"))
	eq(t, "substr(1)", Substr(s, 1, None), u("bcde"))
	eq(t, "trim", Trim(S{0xFEFF, ' ', 'a', 0xA0, '\n'}, 0), u("a"))
	eq(t, "trimStart keeps U+0085", Trim(S{0x85, 'a'}, 1), S{0x85, 'a'})
	eq(t, "padStart", Pad(u("a"), 4, u("xy"), true, true), u("xyxa"))
	eq(t, "padEnd default", Pad(u("a"), 3, nil, false, false), u("a  "))
	eq(t, "padEnd empty filler", Pad(u("a"), 3, u(""), true, false), u("a"))
}

func TestReplaceSplit(t *testing.T) {
	eq(t, "replaceAll $&", ReplaceAll(u("aXbX"), u("X"), u("$&$&")), u("aXXbXX"))
	eq(t, "replace $`$'", Replace(u("abc"), u("b"), u("$`$'")), u("aacc"))
	eq(t, "replace $$ $1", Replace(u("abc"), u("b"), u("$$$1")), u("a$$1c"))
	eq(t, "replaceAll empty", ReplaceAll(u("ab"), u(""), u("-")), u("-a-b-"))
	eq(t, "replace empty", Replace(u("ab"), u(""), u("-")), u("-ab"))
	if got := Split(u("a,b,"), u(","), -1); len(got) != 3 || len(got[2]) != 0 {
		t.Errorf("split: %v", got)
	}
	if got := Split(u(""), u(""), -1); len(got) != 0 {
		t.Errorf("split empty by empty: %v", got)
	}
	if got := Split(u(""), u("a"), -1); len(got) != 1 {
		t.Errorf("split empty by a: %v", got)
	}
	if got := Split(u("abc"), u(""), 2); len(got) != 2 {
		t.Errorf("split limit: %v", got)
	}
}

func TestRegexp(t *testing.T) {
	any := ReChar{Pred: func(r rune) bool { return r != '\n' }}
	empty := &Regexp{Root: ReSeq{}, Global: true}
	emptyU := &Regexp{Root: ReSeq{}, Global: true, Unicode: true}
	eq(t, "aaa.replace(/(?:)/g,'-')", empty.ReplaceRe(u("aaa"), u("-"), nil), u("-a-a-a-"))
	pair := S{0xD801, 0xDC28}
	eq(t, "pair.replace(/(?:)/g,'-')", empty.ReplaceRe(pair, u("-"), nil), S{'-', 0xD801, '-', 0xDC28, '-'})
	eq(t, "pair.replace(/(?:)/gu,'-')", emptyU.ReplaceRe(pair, u("-"), nil), S{'-', 0xD801, 0xDC28, '-'})
	if got := empty.SplitRe(pair); len(got) != 2 {
		t.Errorf("pair.split(/(?:)/): %d parts", len(got))
	}
	if got := emptyU.SplitRe(pair); len(got) != 1 {
		t.Errorf("pair.split(/(?:)/u): %d parts", len(got))
	}
	swap := &Regexp{Root: ReSeq{ReGroup{Idx: 1, Of: any}, ReGroup{Idx: 2, Of: any}}, NCaps: 2, Global: true}
	eq(t, "abc.replace(/(.)(.)/g,'$2$1')", swap.ReplaceRe(u("abc"), u("$2$1"), nil), u("bac"))
	eq(t, "pair swapped by code unit", swap.ReplaceRe(pair, u("$2$1"), nil), S{0xDC28, 0xD801})
	hiU := &Regexp{Root: ReChar{Pred: func(r rune) bool { return r == 0xD801 }}, Global: true, Unicode: true}
	eq(t, "/\\ud801/gu does not match inside a pair", hiU.ReplaceRe(S{0xD801, 0xDC28, 0xD801}, u("x"), nil), S{0xD801, 0xDC28, 'x'})
	sep := &Regexp{Root: ReGroup{Idx: 1, Of: ReChar{Pred: func(r rune) bool { return r == ',' }}}, NCaps: 1}
	eq(t, "split with a capture", JoinOpt(sep.SplitRe(u("a,b")), u("|")), u("a|,|b"))
}

func TestJSON(t *testing.T) {
	eq(t, "quote lone", QuoteJSON(S{'a', 0xD801, '"', '\n', 1}), u(`"a\ud801\"\n\u0001"`))
	eq(t, "quote pair", QuoteJSON(S{0xD801, 0xDC28}), S{'"', 0xD801, 0xDC28, '"'})
	v, ok, lone := ParseJSONString(u(` "aé\n" `))
	if !ok || lone {
		t.Fatal("parse")
	}
	eq(t, "parse", v, S{'a', 0xE9, '\n'})
	if _, ok, _ := ParseJSONString(u(`"a" x`)); ok {
		t.Error("trailing garbage")
	}
	if _, _, lone := ParseJSONString(u(`"\ud801"`)); !lone {
		t.Error("escaped lone surrogate")
	}
}
