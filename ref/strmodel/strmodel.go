// Package strmodel is a reference model of ECMAScript String values and of the code-unit level
// String.prototype / JSON / RegExp-replace algorithms, written directly over []uint16 with no shortcuts
// through Go strings (a Go string cannot hold a lone surrogate). It does not import goja.
//
// Case mapping and normalisation use the Unicode tables of golang.org/x/text, but are applied only to
// maximal well-formed runs of the input: lone surrogates are code points of their own that have no case
// mapping, no decomposition, combining class 0 and are not case-ignorable, so they pass through unchanged
// and are a boundary for every contextual rule (ECMA-262 22.1.3.28/30 toLowerCase/toUpperCase via
// StringToCodePoints, 22.1.3.15 normalize).
package strmodel

import (
	"unicode/utf16"
	"unicode/utf8"

	"golang.org/x/text/cases"
	"golang.org/x/text/language"
	"golang.org/x/text/unicode/norm"
)

// S is a String value: a sequence of UTF-16 code units.
type S = []uint16

// Kind of an operation result.
type Kind int

const (
	String    Kind = iota
	Undefined      // the operation yields undefined (at(), index access out of range, split(...)[k])
	Throws         // the operation must throw
	Excluded       // behaviour is a documented goja incompatibility; not judged
)

func (k Kind) String() string {
	return [...]string{"string", "undefined", "throws", "excluded"}[k]
}

func IsHigh(c uint16) bool { return c >= 0xD800 && c <= 0xDBFF }
func IsLow(c uint16) bool  { return c >= 0xDC00 && c <= 0xDFFF }

// FromGo converts a (valid UTF-8) Go string.
func FromGo(s string) S { return utf16.Encode([]rune(s)) }

// CodePoints is StringToCodePoints: surrogate pairs are combined, lone surrogates are kept as they are.
func CodePoints(s S) []rune {
	res := make([]rune, 0, len(s))
	for i := 0; i < len(s); i++ {
		c := s[i]
		if IsHigh(c) && i+1 < len(s) && IsLow(s[i+1]) {
			res = append(res, (rune(c)-0xD800)<<10+(rune(s[i+1])-0xDC00)+0x10000)
			i++
			continue
		}
		res = append(res, rune(c))
	}
	return res
}

// FromCodePoints is CodePointsToString (lone surrogate code points are written as the single unit).
func FromCodePoints(cps []rune) S {
	res := make(S, 0, len(cps))
	for _, r := range cps {
		res = appendCP(res, r)
	}
	return res
}

func appendCP(res S, r rune) S {
	if r >= 0x10000 {
		r -= 0x10000
		return append(res, uint16(0xD800+(r>>10)), uint16(0xDC00+(r&0x3FF)))
	}
	return append(res, uint16(r))
}

// HasLone reports whether s contains a surrogate code unit that is not part of a pair.
func HasLone(s S) bool {
	for i := 0; i < len(s); i++ {
		c := s[i]
		if IsHigh(c) && i+1 < len(s) && IsLow(s[i+1]) {
			i++
			continue
		}
		if IsHigh(c) || IsLow(c) {
			return true
		}
	}
	return false
}

// ToGo returns the UTF-8 encoding of a well-formed s; ok is false if s has a lone surrogate.
func ToGo(s S) (string, bool) {
	if HasLone(s) {
		return "", false
	}
	buf := make([]byte, 0, len(s)*3)
	for _, r := range CodePoints(s) {
		buf = utf8.AppendRune(buf, r)
	}
	return string(buf), true
}

func IsASCII(s S) bool {
	for _, c := range s {
		if c >= 0x80 {
			return false
		}
	}
	return true
}

func Equal(a, b S) bool {
	if len(a) != len(b) {
		return false
	}
	for i := range a {
		if a[i] != b[i] {
			return false
		}
	}
	return true
}

// Compare is the code-unit lexicographic order used by IsLessThan on two Strings (-1, 0, +1).
func Compare(a, b S) int {
	for i := 0; i < len(a) && i < len(b); i++ {
		if a[i] != b[i] {
			if a[i] < b[i] {
				return -1
			}
			return 1
		}
	}
	switch {
	case len(a) < len(b):
		return -1
	case len(a) > len(b):
		return 1
	}
	return 0
}

func Concat(parts ...S) S {
	n := 0
	for _, p := range parts {
		n += len(p)
	}
	res := make(S, 0, n)
	for _, p := range parts {
		res = append(res, p...)
	}
	return res
}

func clamp(v, lo, hi int) int {
	if v < lo {
		return lo
	}
	if v > hi {
		return hi
	}
	return v
}

// Opt is an optional integer argument (absent = undefined).
type Opt struct {
	Set bool
	V   int
}

func Int(v int) Opt { return Opt{true, v} }

var None = Opt{}

// Slice is String.prototype.slice.
func Slice(s S, start int, end Opt) S {
	n := len(s)
	rel := func(v int) int {
		if v < 0 {
			return max(n+v, 0)
		}
		return min(v, n)
	}
	from := rel(start)
	to := n
	if end.Set {
		to = rel(end.V)
	}
	if from >= to {
		return S{}
	}
	return append(S{}, s[from:to]...)
}

// Substring is String.prototype.substring.
func Substring(s S, start int, end Opt) S {
	n := len(s)
	a := clamp(start, 0, n)
	b := n
	if end.Set {
		b = clamp(end.V, 0, n)
	}
	if a > b {
		a, b = b, a
	}
	return append(S{}, s[a:b]...)
}

// Substr is String.prototype.substr (Annex B).
func Substr(s S, start int, length Opt) S {
	size := len(s)
	if start < 0 {
		start = max(size+start, 0)
	} else {
		start = min(start, size)
	}
	l := size
	if length.Set {
		l = clamp(length.V, 0, size)
	}
	end := min(start+l, size)
	if start >= end {
		return S{}
	}
	return append(S{}, s[start:end]...)
}

// At is String.prototype.at.
func At(s S, i int) (S, Kind) {
	if i < 0 {
		i += len(s)
	}
	if i < 0 || i >= len(s) {
		return nil, Undefined
	}
	return S{s[i]}, String
}

// CharAt is String.prototype.charAt.
func CharAt(s S, i int) S {
	if i < 0 || i >= len(s) {
		return S{}
	}
	return S{s[i]}
}

// Index is s[i] (String exotic object integer-indexed property).
func Index(s S, i int) (S, Kind) {
	if i < 0 || i >= len(s) {
		return nil, Undefined
	}
	return S{s[i]}, String
}

// Repeat is String.prototype.repeat.
func Repeat(s S, n int) (S, Kind) {
	if n < 0 {
		return nil, Throws
	}
	res := make(S, 0, len(s)*n)
	for i := 0; i < n; i++ {
		res = append(res, s...)
	}
	return res, String
}

// Pad is StringPad (padStart when atStart, else padEnd). fill absent = " ".
func Pad(s S, maxLength int, fill S, hasFill bool, atStart bool) S {
	if maxLength <= len(s) {
		return append(S{}, s...)
	}
	if !hasFill {
		fill = S{' '}
	}
	if len(fill) == 0 {
		return append(S{}, s...)
	}
	fillLen := maxLength - len(s)
	filler := make(S, 0, fillLen)
	for len(filler) < fillLen {
		filler = append(filler, fill[len(filler)%len(fill)])
	}
	if atStart {
		return Concat(filler, s)
	}
	return Concat(s, filler)
}

// IsWhiteSpace: WhiteSpace and LineTerminator code points of ECMA-262 (all are BMP).
func IsWhiteSpace(c uint16) bool {
	switch c {
	case 0x09, 0x0A, 0x0B, 0x0C, 0x0D, 0x20, 0xA0, 0x1680, 0x2028, 0x2029, 0x202F, 0x205F, 0x3000, 0xFEFF:
		return true
	}
	return c >= 0x2000 && c <= 0x200A
}

func IsLineTerminator(c uint16) bool {
	return c == 0x0A || c == 0x0D || c == 0x2028 || c == 0x2029
}

// Trim is TrimString; where: 0 = both, 1 = start, 2 = end.
func Trim(s S, where int) S {
	a, b := 0, len(s)
	if where != 2 {
		for a < b && IsWhiteSpace(s[a]) {
			a++
		}
	}
	if where != 1 {
		for b > a && IsWhiteSpace(s[b-1]) {
			b--
		}
	}
	return append(S{}, s[a:b]...)
}

// mapRuns applies f to every maximal well-formed run of s and copies lone surrogates unchanged.
func mapRuns(s S, f func(string) string) S {
	res := make(S, 0, len(s))
	var run []rune
	flush := func() {
		if len(run) > 0 {
			res = append(res, FromGo(f(string(run)))...)
			run = run[:0]
		}
	}
	for _, r := range CodePoints(s) {
		if r >= 0xD800 && r <= 0xDFFF {
			flush()
			res = append(res, uint16(r))
			continue
		}
		run = append(run, r)
	}
	flush()
	return res
}

// ToUpper is String.prototype.toUpperCase (locale-insensitive full case mapping).
func ToUpper(s S) S { return mapRuns(s, cases.Upper(language.Und).String) }

// ToLower is String.prototype.toLowerCase.
func ToLower(s S) S { return mapRuns(s, cases.Lower(language.Und).String) }

// Normalize is String.prototype.normalize; form is one of NFC NFD NFKC NFKD.
func Normalize(s S, form string) (S, Kind) {
	var f norm.Form
	switch form {
	case "NFC":
		f = norm.NFC
	case "NFD":
		f = norm.NFD
	case "NFKC":
		f = norm.NFKC
	case "NFKD":
		f = norm.NFKD
	default:
		return nil, Throws
	}
	return mapRuns(s, f.String), String
}

// IndexOf is StringIndexOf(s, search, from): smallest i >= from with s[i:i+len]==search, or -1.
func IndexOf(s, search S, from int) int {
	if from < 0 {
		from = 0
	}
	for i := from; i+len(search) <= len(s); i++ {
		if Equal(s[i:i+len(search)], search) {
			return i
		}
	}
	return -1
}

// GetSubstitution (ECMA-262 22.1.3.19.1) without named captures.
func GetSubstitution(matched, str S, position int, captures []*S, template S) S {
	res := S{}
	tailPos := position + len(matched)
	if tailPos > len(str) {
		tailPos = len(str)
	}
	m := len(captures)
	for i := 0; i < len(template); {
		c := template[i]
		if c != '$' || i+1 >= len(template) {
			res = append(res, c)
			i++
			continue
		}
		n := template[i+1]
		switch {
		case n == '$':
			res = append(res, '$')
			i += 2
		case n == '&':
			res = append(res, matched...)
			i += 2
		case n == '`':
			res = append(res, str[:position]...)
			i += 2
		case n == '\'':
			res = append(res, str[tailPos:]...)
			i += 2
		case n >= '0' && n <= '9':
			// one or two digits, the two-digit form only if it names an existing capture
			d1 := int(n - '0')
			used := 0
			idx := 0
			if i+2 < len(template) && template[i+2] >= '0' && template[i+2] <= '9' {
				d2 := d1*10 + int(template[i+2]-'0')
				if d2 >= 1 && d2 <= m {
					idx, used = d2, 3
				}
			}
			if used == 0 && d1 >= 1 && d1 <= m {
				idx, used = d1, 2
			}
			if used == 0 {
				res = append(res, '$')
				i++
				continue
			}
			if cp := captures[idx-1]; cp != nil {
				res = append(res, (*cp)...)
			}
			i += used
		default:
			// "$<" without named captures and every other character: literal "$"
			res = append(res, '$')
			i++
		}
	}
	return res
}

// Replace is String.prototype.replace with a string pattern and a string replacement.
func Replace(s, search, repl S) S {
	pos := IndexOf(s, search, 0)
	if pos < 0 {
		return append(S{}, s...)
	}
	sub := GetSubstitution(search, s, pos, nil, repl)
	return Concat(s[:pos], sub, s[pos+len(search):])
}

// ReplaceAll is String.prototype.replaceAll with a string pattern and a string replacement.
func ReplaceAll(s, search, repl S) S {
	adv := max(1, len(search))
	var positions []int
	for pos := IndexOf(s, search, 0); pos >= 0; pos = indexOfBounded(s, search, pos+adv) {
		positions = append(positions, pos)
	}
	end := 0
	res := S{}
	for _, p := range positions {
		res = append(res, s[end:p]...)
		res = append(res, GetSubstitution(search, s, p, nil, repl)...)
		end = p + len(search)
	}
	if end < len(s) {
		res = append(res, s[end:]...)
	}
	return res
}

func indexOfBounded(s, search S, from int) int {
	if from > len(s) {
		return -1
	}
	return IndexOf(s, search, from)
}

// ReplaceFn is replace/replaceAll with a string pattern and a callback; fn receives (matched, position).
func ReplaceFn(s, search S, all bool, fn func(matched S, pos int) S) S {
	adv := max(1, len(search))
	var positions []int
	for pos := IndexOf(s, search, 0); pos >= 0; pos = indexOfBounded(s, search, pos+adv) {
		positions = append(positions, pos)
		if !all {
			break
		}
	}
	end := 0
	res := S{}
	for _, p := range positions {
		res = append(res, s[end:p]...)
		res = append(res, fn(search, p)...)
		end = p + len(search)
	}
	if end < len(s) {
		res = append(res, s[end:]...)
	}
	return res
}

// Split is String.prototype.split with a string separator; limit < 0 = undefined.
func Split(s, sep S, limit int) []S {
	lim := int64(limit)
	if limit < 0 {
		lim = 1<<32 - 1
	}
	if lim == 0 {
		return []S{}
	}
	if len(sep) == 0 {
		res := []S{}
		for i := 0; i < len(s) && int64(i) < lim; i++ {
			res = append(res, S{s[i]})
		}
		return res
	}
	if len(s) == 0 {
		return []S{{}}
	}
	res := []S{}
	p := 0
	for q := IndexOf(s, sep, 0); q >= 0; q = IndexOf(s, sep, p) {
		res = append(res, append(S{}, s[p:q]...))
		if int64(len(res)) >= lim {
			return res
		}
		p = q + len(sep)
	}
	return append(res, append(S{}, s[p:]...))
}

// Join is Array.prototype.join over strings.
func Join(parts []S, sep S) S {
	res := S{}
	for i, p := range parts {
		if i > 0 {
			res = append(res, sep...)
		}
		res = append(res, p...)
	}
	return res
}

const hexdigits = "0123456789abcdef"

// QuoteJSON is QuoteJSONString (well-formed JSON.stringify: lone surrogates are escaped).
func QuoteJSON(s S) S {
	res := S{'"'}
	for _, r := range CodePoints(s) {
		switch {
		case r == '"' || r == '\\':
			res = append(res, '\\', uint16(r))
		case r == 0x08:
			res = append(res, '\\', 'b')
		case r == 0x09:
			res = append(res, '\\', 't')
		case r == 0x0A:
			res = append(res, '\\', 'n')
		case r == 0x0C:
			res = append(res, '\\', 'f')
		case r == 0x0D:
			res = append(res, '\\', 'r')
		case r < 0x20 || (r >= 0xD800 && r <= 0xDFFF):
			res = append(res, '\\', 'u', uint16(hexdigits[r>>12&15]), uint16(hexdigits[r>>8&15]), uint16(hexdigits[r>>4&15]), uint16(hexdigits[r&15]))
		default:
			res = appendCP(res, r)
		}
	}
	return append(res, '"')
}

// ParseJSONString evaluates JSON.parse(text) for texts that are one JSON string literal (with optional
// JSON white space around it). isString is false when text is anything else (another JSON value or a
// syntax error). lone is true when the text or the decoded value contains a lone surrogate (the documented
// goja incompatibility: its JSON.parse works in UTF-8).
func ParseJSONString(text S) (val S, isString bool, lone bool) {
	lone = HasLone(text)
	i, n := 0, len(text)
	ws := func() {
		for i < n && (text[i] == ' ' || text[i] == '\t' || text[i] == '\n' || text[i] == '\r') {
			i++
		}
	}
	ws()
	if i >= n || text[i] != '"' {
		return nil, false, lone
	}
	i++
	val = S{}
	for {
		if i >= n {
			return nil, false, lone
		}
		c := text[i]
		i++
		if c == '"' {
			break
		}
		if c < 0x20 {
			return nil, false, lone
		}
		if c != '\\' {
			val = append(val, c)
			continue
		}
		if i >= n {
			return nil, false, lone
		}
		e := text[i]
		i++
		switch e {
		case '"', '\\', '/':
			val = append(val, e)
		case 'b':
			val = append(val, 8)
		case 'f':
			val = append(val, 12)
		case 'n':
			val = append(val, 10)
		case 'r':
			val = append(val, 13)
		case 't':
			val = append(val, 9)
		case 'u':
			if i+4 > n {
				return nil, false, lone
			}
			var v uint16
			for k := 0; k < 4; k++ {
				d := text[i+k]
				switch {
				case d >= '0' && d <= '9':
					v = v<<4 | (d - '0')
				case d >= 'a' && d <= 'f':
					v = v<<4 | (d - 'a' + 10)
				case d >= 'A' && d <= 'F':
					v = v<<4 | (d - 'A' + 10)
				default:
					return nil, false, lone
				}
			}
			i += 4
			val = append(val, v)
		default:
			return nil, false, lone
		}
	}
	ws()
	if i != n {
		return nil, false, lone
	}
	if HasLone(val) {
		lone = true
	}
	return val, true, lone
}
