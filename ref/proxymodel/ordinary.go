package proxymodel

import (
	"sort"
	"strconv"
)

// Object is the essential internal-method interface of §6.1.7.2 (Table 4 and Table 5).
type Object interface {
	Name() string
	GetPrototypeOf() Val // Null or an object
	SetPrototypeOf(v Val) bool
	IsExtensible() bool
	PreventExtensions() bool
	GetOwnProperty(k Key) *Desc // nil = undefined; the result is a copy
	DefineOwnProperty(k Key, d Desc) bool
	HasProperty(k Key) bool
	Get(k Key, receiver Val) Val
	Set(k Key, v Val, receiver Val) bool
	Delete(k Key) bool
	OwnPropertyKeys() []Key
	IsCallable() bool
	IsConstructor() bool
	Call(this Val, args []Val) Val
	Construct(args []Val, newTarget Object) Val
}

// Ordinary is an ordinary object (§10.1), optionally a function (CallFn / ConstructFn set).
type Ordinary struct {
	name        string
	proto       Val
	ext         bool
	order       []Key // creation order of the keys in props
	props       map[Key]*Desc
	IsArray     bool // only affects Structural rendering: the object stands for an Array / List
	CallFn      func(this Val, args []Val) Val
	ConstructFn func(args []Val, newTarget Object) Val
}

func NewOrdinary(name string, proto Val) *Ordinary {
	return &Ordinary{name: name, proto: proto, ext: true, props: map[Key]*Desc{}}
}

// NewFunction makes a callable ordinary object; ctor may be nil (not a constructor).
func NewFunction(name string, proto Val, call func(this Val, args []Val) Val, ctor func(args []Val, newTarget Object) Val) *Ordinary {
	o := NewOrdinary(name, proto)
	o.CallFn, o.ConstructFn = call, ctor
	return o
}

// NewList is CreateArrayFromList as far as the model needs it: index properties plus "length".
func NewList(proto Val, items []Val) *Ordinary {
	o := NewOrdinary("", proto)
	o.IsArray = true
	for i, it := range items {
		o.put(SKey(strconv.Itoa(i)), &Desc{HasValue: true, Value: it, W: Yes, E: Yes, C: Yes})
	}
	o.put(SKey("length"), &Desc{HasValue: true, Value: Num(float64(len(items))), W: Yes, E: No, C: No})
	return o
}

func (o *Ordinary) put(k Key, d *Desc) {
	if _, ok := o.props[k]; !ok {
		o.order = append(o.order, k)
	}
	o.props[k] = d
}

// Put creates or overwrites an own property without any validation (test set-up only).
func (o *Ordinary) Put(k Key, d Desc) { c := d; o.put(k, &c) }

func (o *Ordinary) Name() string { return o.name }

// 10.1.1
func (o *Ordinary) GetPrototypeOf() Val { return o.proto }

// 10.1.2.1 OrdinarySetPrototypeOf
func (o *Ordinary) SetPrototypeOf(v Val) bool {
	if SameValue(v, o.proto) {
		return true
	}
	if !o.ext {
		return false
	}
	p := v
	for p.K == Obj {
		if p.O == Object(o) {
			return false
		}
		po, ok := p.O.(*Ordinary)
		if !ok { // p.[[GetPrototypeOf]] is not the ordinary one
			break
		}
		p = po.proto
	}
	o.proto = v
	return true
}

func (o *Ordinary) IsExtensible() bool      { return o.ext }
func (o *Ordinary) PreventExtensions() bool { o.ext = false; return true }

// 10.1.5.1
func (o *Ordinary) GetOwnProperty(k Key) *Desc {
	p, ok := o.props[k]
	if !ok {
		return nil
	}
	c := *p
	return &c
}

// 10.1.6.1 OrdinaryDefineOwnProperty
func (o *Ordinary) DefineOwnProperty(k Key, d Desc) bool {
	current := o.GetOwnProperty(k)
	extensible := o.IsExtensible()
	return ValidateAndApplyPropertyDescriptor(o, k, extensible, d, current)
}

// IsCompatiblePropertyDescriptor (§10.1.6.2).
func IsCompatiblePropertyDescriptor(extensible bool, d Desc, current *Desc) bool {
	return ValidateAndApplyPropertyDescriptor(nil, Key{}, extensible, d, current)
}

// ValidateAndApplyPropertyDescriptor (§10.1.6.3, ES2023 wording). o == nil stands for O = undefined.
func ValidateAndApplyPropertyDescriptor(o *Ordinary, k Key, extensible bool, d Desc, current *Desc) bool {
	// 2.
	if current == nil {
		if !extensible {
			return false
		}
		if o == nil {
			return true
		}
		n := &Desc{}
		if d.IsAccessor() {
			n.HasGet, n.Get = true, Undef
			n.HasSet, n.Set = true, Undef
			if d.HasGet {
				n.Get = d.Get
			}
			if d.HasSet {
				n.Set = d.Set
			}
		} else {
			n.HasValue, n.Value = true, Undef
			if d.HasValue {
				n.Value = d.Value
			}
			n.W = No
			if d.W != Absent {
				n.W = d.W
			}
		}
		n.E, n.C = No, No
		if d.E != Absent {
			n.E = d.E
		}
		if d.C != Absent {
			n.C = d.C
		}
		o.put(k, n)
		return true
	}
	// 4.
	if d.noFields() {
		return true
	}
	// 5.
	if current.C == No {
		if d.C == Yes {
			return false
		}
		if d.E != Absent && d.E != current.E {
			return false
		}
		if !d.IsGeneric() && d.IsAccessor() != current.IsAccessor() {
			return false
		}
		if current.IsAccessor() {
			if d.HasGet && !SameValue(d.Get, current.Get) {
				return false
			}
			if d.HasSet && !SameValue(d.Set, current.Set) {
				return false
			}
		} else if current.W == No {
			if d.W == Yes {
				return false
			}
			if d.HasValue && !SameValue(d.Value, current.Value) {
				return false
			}
		}
	}
	// 6.
	if o != nil {
		p := o.props[k]
		switch {
		case current.IsData() && d.IsAccessor():
			n := &Desc{HasGet: true, Get: Undef, HasSet: true, Set: Undef, E: p.E, C: p.C}
			if d.HasGet {
				n.Get = d.Get
			}
			if d.HasSet {
				n.Set = d.Set
			}
			if d.E != Absent {
				n.E = d.E
			}
			if d.C != Absent {
				n.C = d.C
			}
			o.props[k] = n
		case current.IsAccessor() && d.IsData():
			n := &Desc{HasValue: true, Value: Undef, W: No, E: p.E, C: p.C}
			if d.HasValue {
				n.Value = d.Value
			}
			if d.W != Absent {
				n.W = d.W
			}
			if d.E != Absent {
				n.E = d.E
			}
			if d.C != Absent {
				n.C = d.C
			}
			o.props[k] = n
		default:
			if d.HasValue {
				p.Value = d.Value
			}
			if d.W != Absent {
				p.W = d.W
			}
			if d.HasGet {
				p.Get = d.Get
			}
			if d.HasSet {
				p.Set = d.Set
			}
			if d.E != Absent {
				p.E = d.E
			}
			if d.C != Absent {
				p.C = d.C
			}
		}
	}
	return true
}

// 10.1.7.1 OrdinaryHasProperty
func (o *Ordinary) HasProperty(k Key) bool {
	if o.GetOwnProperty(k) != nil {
		return true
	}
	parent := o.GetPrototypeOf()
	if parent.K == Obj {
		return parent.O.HasProperty(k)
	}
	return false
}

// 10.1.8.1 OrdinaryGet
func (o *Ordinary) Get(k Key, receiver Val) Val {
	desc := o.GetOwnProperty(k)
	if desc == nil {
		parent := o.GetPrototypeOf()
		if parent.K != Obj {
			return Undef
		}
		return parent.O.Get(k, receiver)
	}
	if desc.IsData() {
		return desc.Value
	}
	if desc.Get.K == Undefined {
		return Undef
	}
	return desc.Get.O.Call(receiver, nil)
}

// 10.1.9.1 OrdinarySet / 10.1.9.2 OrdinarySetWithOwnDescriptor
func (o *Ordinary) Set(k Key, v Val, receiver Val) bool {
	ownDesc := o.GetOwnProperty(k)
	if ownDesc == nil {
		parent := o.GetPrototypeOf()
		if parent.K == Obj {
			return parent.O.Set(k, v, receiver)
		}
		ownDesc = &Desc{HasValue: true, Value: Undef, W: Yes, E: Yes, C: Yes}
	}
	if ownDesc.IsData() {
		if ownDesc.W == No {
			return false
		}
		if receiver.K != Obj {
			return false
		}
		existing := receiver.O.GetOwnProperty(k)
		if existing != nil {
			if existing.IsAccessor() {
				return false
			}
			if existing.W == No {
				return false
			}
			return receiver.O.DefineOwnProperty(k, Desc{HasValue: true, Value: v})
		}
		return receiver.O.DefineOwnProperty(k, Desc{HasValue: true, Value: v, W: Yes, E: Yes, C: Yes})
	}
	if ownDesc.Set.K == Undefined {
		return false
	}
	ownDesc.Set.O.Call(receiver, []Val{v})
	return true
}

// 10.1.10.1 OrdinaryDelete
func (o *Ordinary) Delete(k Key) bool {
	desc := o.GetOwnProperty(k)
	if desc == nil {
		return true
	}
	if desc.C == Yes {
		delete(o.props, k)
		for i, x := range o.order {
			if x == k {
				o.order = append(o.order[:i:i], o.order[i+1:]...)
				break
			}
		}
		return true
	}
	return false
}

// 10.1.11.1 OrdinaryOwnPropertyKeys
func (o *Ordinary) OwnPropertyKeys() []Key {
	var idx []uint32
	var strs, syms []Key
	for _, k := range o.order {
		if k.Sym {
			syms = append(syms, k)
		} else if n, ok := k.arrayIndex(); ok {
			idx = append(idx, n)
		} else {
			strs = append(strs, k)
		}
	}
	sort.Slice(idx, func(i, j int) bool { return idx[i] < idx[j] })
	keys := make([]Key, 0, len(o.order))
	for _, n := range idx {
		keys = append(keys, SKey(strconv.FormatUint(uint64(n), 10)))
	}
	keys = append(keys, strs...)
	return append(keys, syms...)
}

func (o *Ordinary) IsCallable() bool    { return o.CallFn != nil }
func (o *Ordinary) IsConstructor() bool { return o.ConstructFn != nil }
func (o *Ordinary) Call(this Val, args []Val) Val {
	if o.CallFn == nil {
		throwTypeError("not-callable")
	}
	return o.CallFn(this, args)
}
func (o *Ordinary) Construct(args []Val, newTarget Object) Val {
	if o.ConstructFn == nil {
		throwTypeError("not-callable")
	}
	return o.ConstructFn(args, newTarget)
}

// Dump renders the complete observable state of an ordinary object: extensibility, prototype and every
// own property in [[OwnPropertyKeys]] order with its full descriptor.
func (o *Ordinary) Dump() string {
	s := "ext=" + triStr(TriOf(o.ext)) + ";proto=" + Repr(o.proto) + ";"
	for _, k := range o.OwnPropertyKeys() {
		s += k.String() + DescRepr(o.props[k]) + ";"
	}
	return s
}
