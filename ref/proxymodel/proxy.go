package proxymodel

// TrapKind says what the handler holds under a trap name.
type TrapKind uint8

const (
	TrapMissing     TrapKind = iota // property absent or undefined
	TrapNull                        // null: GetMethod treats it like undefined
	TrapNonCallable                 // any other non-callable value: GetMethod throws a TypeError
	TrapFn
)

// Trap is the value of one handler property. Fn receives the proxy's target and the remaining trap
// arguments exactly as §10.5 passes them and returns the trap result (or panics with a *Throw).
type Trap struct {
	Kind TrapKind
	Fn   func(target Object, args []Val) Val
}

// Handler stands for the handler object: the result of Get(handler, name) for the 13 trap names.
type Handler struct {
	Traps map[string]Trap
}

// Proxy is a Proxy exotic object (§10.5). Target == nil means revoked.
type Proxy struct {
	name     string
	Target   Object
	Handler  *Handler
	callable bool
	ctor     bool
	Realm    *Realm
}

// Realm holds the intrinsics the abstract operations need when they create objects.
type Realm struct {
	ObjectProto Val // %Object.prototype% stand-in (prototype of descriptor objects)
	ArrayProto  Val // %Array.prototype% stand-in (prototype of argument arrays and key arrays)
}

// ProxyCreate (§10.5.14). Target and handler are objects by construction here.
func ProxyCreate(rl *Realm, name string, target Object, h *Handler) *Proxy {
	p := &Proxy{name: name, Target: target, Handler: h, Realm: rl}
	p.callable = target.IsCallable()
	if p.callable {
		p.ctor = target.IsConstructor()
	}
	return p
}

func (p *Proxy) Revoke()      { p.Target, p.Handler = nil, nil }
func (p *Proxy) Name() string { return p.name }

// validate is ValidateNonRevokedProxy.
func (p *Proxy) validate() {
	if p.Target == nil {
		throwTypeError("revoked")
	}
}

// getMethod is GetMethod(handler, name) (§7.3.11): nil = undefined.
func (p *Proxy) getMethod(name string) func(target Object, args []Val) Val {
	t, ok := p.Handler.Traps[name]
	if !ok {
		return nil
	}
	switch t.Kind {
	case TrapMissing, TrapNull:
		return nil
	case TrapNonCallable:
		throwTypeError("trap-not-callable")
	}
	return t.Fn
}

// 10.5.1 [[GetPrototypeOf]] ( )
func (p *Proxy) GetPrototypeOf() Val {
	p.validate()
	target := p.Target
	trap := p.getMethod("getPrototypeOf")
	if trap == nil {
		return target.GetPrototypeOf()
	}
	handlerProto := trap(target, nil)
	if handlerProto.K != Obj && handlerProto.K != Null {
		throwTypeError("getPrototypeOf:result-not-object-or-null")
	}
	extensibleTarget := target.IsExtensible()
	if extensibleTarget {
		return handlerProto
	}
	targetProto := target.GetPrototypeOf()
	if !SameValue(handlerProto, targetProto) {
		throwTypeError("getPrototypeOf:nonextensible-target-different-proto")
	}
	return handlerProto
}

// 10.5.2 [[SetPrototypeOf]] ( V )
func (p *Proxy) SetPrototypeOf(v Val) bool {
	p.validate()
	target := p.Target
	trap := p.getMethod("setPrototypeOf")
	if trap == nil {
		return target.SetPrototypeOf(v)
	}
	booleanTrapResult := ToBoolean(trap(target, []Val{v}))
	if !booleanTrapResult {
		return false
	}
	extensibleTarget := target.IsExtensible()
	if extensibleTarget {
		return true
	}
	targetProto := target.GetPrototypeOf()
	if !SameValue(v, targetProto) {
		throwTypeError("setPrototypeOf:nonextensible-target-different-proto")
	}
	return true
}

// 10.5.3 [[IsExtensible]] ( )
func (p *Proxy) IsExtensible() bool {
	p.validate()
	target := p.Target
	trap := p.getMethod("isExtensible")
	if trap == nil {
		return target.IsExtensible()
	}
	booleanTrapResult := ToBoolean(trap(target, nil))
	targetResult := target.IsExtensible()
	if booleanTrapResult != targetResult {
		throwTypeError("isExtensible:result-differs-from-target")
	}
	return booleanTrapResult
}

// 10.5.4 [[PreventExtensions]] ( )
func (p *Proxy) PreventExtensions() bool {
	p.validate()
	target := p.Target
	trap := p.getMethod("preventExtensions")
	if trap == nil {
		return target.PreventExtensions()
	}
	booleanTrapResult := ToBoolean(trap(target, nil))
	if booleanTrapResult {
		extensibleTarget := target.IsExtensible()
		if extensibleTarget {
			throwTypeError("preventExtensions:true-but-target-extensible")
		}
	}
	return booleanTrapResult
}

// 10.5.5 [[GetOwnProperty]] ( P )
func (p *Proxy) GetOwnProperty(k Key) *Desc {
	p.validate()
	target := p.Target
	trap := p.getMethod("getOwnPropertyDescriptor")
	if trap == nil {
		return target.GetOwnProperty(k)
	}
	trapResultObj := trap(target, []Val{k.Val()})
	if trapResultObj.K != Obj && trapResultObj.K != Undefined {
		throwTypeError("getOwnPropertyDescriptor:result-not-object-or-undefined")
	}
	targetDesc := target.GetOwnProperty(k)
	if trapResultObj.K == Undefined {
		if targetDesc == nil {
			return nil
		}
		if targetDesc.C == No {
			throwTypeError("getOwnPropertyDescriptor:undefined-for-nonconfigurable")
		}
		extensibleTarget := target.IsExtensible()
		if !extensibleTarget {
			throwTypeError("getOwnPropertyDescriptor:undefined-on-nonextensible-target")
		}
		return nil
	}
	extensibleTarget := target.IsExtensible()
	resultDesc := ToPropertyDescriptor(trapResultObj)
	resultDesc.Complete()
	valid := IsCompatiblePropertyDescriptor(extensibleTarget, resultDesc, targetDesc)
	if !valid {
		throwTypeError("getOwnPropertyDescriptor:incompatible-descriptor")
	}
	if resultDesc.C == No {
		if targetDesc == nil || targetDesc.C == Yes {
			throwTypeError("getOwnPropertyDescriptor:nonconfigurable-result-for-absent-or-configurable")
		}
		if resultDesc.W == No { // has [[Writable]] and it is false
			if targetDesc.W == Yes {
				throwTypeError("getOwnPropertyDescriptor:nonconfigurable-nonwritable-result-for-writable")
			}
		}
	}
	return &resultDesc
}

// 10.5.6 [[DefineOwnProperty]] ( P, Desc )
func (p *Proxy) DefineOwnProperty(k Key, d Desc) bool {
	p.validate()
	target := p.Target
	trap := p.getMethod("defineProperty")
	if trap == nil {
		return target.DefineOwnProperty(k, d)
	}
	descObj := FromPropertyDescriptor(p.Realm, &d)
	booleanTrapResult := ToBoolean(trap(target, []Val{k.Val(), descObj}))
	if !booleanTrapResult {
		return false
	}
	targetDesc := target.GetOwnProperty(k)
	extensibleTarget := target.IsExtensible()
	settingConfigFalse := d.C == No
	if targetDesc == nil {
		if !extensibleTarget {
			throwTypeError("defineProperty:new-property-on-nonextensible-target")
		}
		if settingConfigFalse {
			throwTypeError("defineProperty:nonconfigurable-requested-but-absent")
		}
	} else {
		if !IsCompatiblePropertyDescriptor(extensibleTarget, d, targetDesc) {
			throwTypeError("defineProperty:incompatible-descriptor")
		}
		if settingConfigFalse && targetDesc.C == Yes {
			throwTypeError("defineProperty:nonconfigurable-requested-but-configurable")
		}
		if targetDesc.IsData() && targetDesc.C == No && targetDesc.W == Yes {
			if d.W == No {
				throwTypeError("defineProperty:nonwritable-requested-but-writable")
			}
		}
	}
	return true
}

// 10.5.7 [[HasProperty]] ( P )
func (p *Proxy) HasProperty(k Key) bool {
	p.validate()
	target := p.Target
	trap := p.getMethod("has")
	if trap == nil {
		return target.HasProperty(k)
	}
	booleanTrapResult := ToBoolean(trap(target, []Val{k.Val()}))
	if !booleanTrapResult {
		targetDesc := target.GetOwnProperty(k)
		if targetDesc != nil {
			if targetDesc.C == No {
				throwTypeError("has:false-for-nonconfigurable")
			}
			extensibleTarget := target.IsExtensible()
			if !extensibleTarget {
				throwTypeError("has:false-on-nonextensible-target")
			}
		}
	}
	return booleanTrapResult
}

// 10.5.8 [[Get]] ( P, Receiver )
func (p *Proxy) Get(k Key, receiver Val) Val {
	p.validate()
	target := p.Target
	trap := p.getMethod("get")
	if trap == nil {
		return target.Get(k, receiver)
	}
	trapResult := trap(target, []Val{k.Val(), receiver})
	targetDesc := target.GetOwnProperty(k)
	if targetDesc != nil && targetDesc.C == No {
		if targetDesc.IsData() && targetDesc.W == No {
			if !SameValue(trapResult, targetDesc.Value) {
				throwTypeError("get:value-differs-from-nonwritable-nonconfigurable")
			}
		}
		if targetDesc.IsAccessor() && targetDesc.Get.K == Undefined {
			if trapResult.K != Undefined {
				throwTypeError("get:not-undefined-for-getterless-nonconfigurable-accessor")
			}
		}
	}
	return trapResult
}

// 10.5.9 [[Set]] ( P, V, Receiver )
func (p *Proxy) Set(k Key, v Val, receiver Val) bool {
	p.validate()
	target := p.Target
	trap := p.getMethod("set")
	if trap == nil {
		return target.Set(k, v, receiver)
	}
	booleanTrapResult := ToBoolean(trap(target, []Val{k.Val(), v, receiver}))
	if !booleanTrapResult {
		return false
	}
	targetDesc := target.GetOwnProperty(k)
	if targetDesc != nil && targetDesc.C == No {
		if targetDesc.IsData() && targetDesc.W == No {
			if !SameValue(v, targetDesc.Value) {
				throwTypeError("set:value-differs-from-nonwritable-nonconfigurable")
			}
		}
		if targetDesc.IsAccessor() {
			if targetDesc.Set.K == Undefined {
				throwTypeError("set:setterless-nonconfigurable-accessor")
			}
		}
	}
	return true
}

// 10.5.10 [[Delete]] ( P )
func (p *Proxy) Delete(k Key) bool {
	p.validate()
	target := p.Target
	trap := p.getMethod("deleteProperty")
	if trap == nil {
		return target.Delete(k)
	}
	booleanTrapResult := ToBoolean(trap(target, []Val{k.Val()}))
	if !booleanTrapResult {
		return false
	}
	targetDesc := target.GetOwnProperty(k)
	if targetDesc == nil {
		return true
	}
	if targetDesc.C == No {
		throwTypeError("deleteProperty:nonconfigurable")
	}
	extensibleTarget := target.IsExtensible()
	if !extensibleTarget {
		throwTypeError("deleteProperty:nonextensible-target")
	}
	return true
}

// 10.5.11 [[OwnPropertyKeys]] ( )
func (p *Proxy) OwnPropertyKeys() []Key {
	p.validate()
	target := p.Target
	trap := p.getMethod("ownKeys")
	if trap == nil {
		return target.OwnPropertyKeys()
	}
	trapResultArray := trap(target, nil)
	trapResult := createKeyListFromArrayLike(trapResultArray)
	for i := range trapResult {
		for j := 0; j < i; j++ {
			if trapResult[i] == trapResult[j] {
				throwTypeError("ownKeys:duplicate")
			}
		}
	}
	extensibleTarget := target.IsExtensible()
	targetKeys := target.OwnPropertyKeys()
	var targetConfigurableKeys, targetNonconfigurableKeys []Key
	for _, key := range targetKeys {
		desc := target.GetOwnProperty(key)
		if desc != nil && desc.C == No {
			targetNonconfigurableKeys = append(targetNonconfigurableKeys, key)
		} else {
			targetConfigurableKeys = append(targetConfigurableKeys, key)
		}
	}
	if extensibleTarget && len(targetNonconfigurableKeys) == 0 {
		return trapResult
	}
	unchecked := append([]Key{}, trapResult...)
	remove := func(key Key) bool {
		for i, x := range unchecked {
			if x == key {
				unchecked = append(unchecked[:i], unchecked[i+1:]...)
				return true
			}
		}
		return false
	}
	for _, key := range targetNonconfigurableKeys {
		if !remove(key) {
			throwTypeError("ownKeys:missing-nonconfigurable-key")
		}
	}
	if extensibleTarget {
		return trapResult
	}
	for _, key := range targetConfigurableKeys {
		if !remove(key) {
			throwTypeError("ownKeys:missing-key-of-nonextensible-target")
		}
	}
	if len(unchecked) != 0 {
		throwTypeError("ownKeys:extra-key-on-nonextensible-target")
	}
	return trapResult
}

func (p *Proxy) IsCallable() bool    { return p.callable }
func (p *Proxy) IsConstructor() bool { return p.ctor }

// 10.5.12 [[Call]] ( thisArgument, argumentsList )
func (p *Proxy) Call(this Val, args []Val) Val {
	if !p.callable {
		throwTypeError("call:not-callable")
	}
	p.validate()
	target := p.Target
	trap := p.getMethod("apply")
	if trap == nil {
		return target.Call(this, args)
	}
	argArray := ObjVal(NewList(p.Realm.ArrayProto, args))
	return trap(target, []Val{this, argArray})
}

// 10.5.13 [[Construct]] ( argumentsList, newTarget )
func (p *Proxy) Construct(args []Val, newTarget Object) Val {
	if !p.ctor {
		throwTypeError("construct:not-constructor")
	}
	p.validate()
	target := p.Target
	trap := p.getMethod("construct")
	if trap == nil {
		return target.Construct(args, newTarget)
	}
	argArray := ObjVal(NewList(p.Realm.ArrayProto, args))
	newObj := trap(target, []Val{argArray, ObjVal(newTarget)})
	if newObj.K != Obj {
		throwTypeError("construct:result-not-object")
	}
	return newObj
}
