// Package proxymodel is a small executable transcription of the object model of ECMA-262 that the
// Proxy property (C11) needs: language values, property descriptors, the ordinary object internal
// methods (§10.1), and the thirteen Proxy internal methods with their invariant checks (§10.5),
// plus the few abstract operations and Reflect / Object entry points through which scripts reach
// them. It does not import goja. Abrupt completions are Go panics carrying a *Throw.
//
// Every step is written in the order of the specification text so that the sequence of internal
// method invocations a proxy performs on its target is part of the model's observable behaviour.
package proxymodel

import (
	"math"
	"strconv"
	"strings"
)

type Kind uint8

const (
	Undefined Kind = iota
	Null
	Boolean
	Number
	String
	Symbol
	Obj
)

// Val is an ECMAScript language value. Symbols are identified by their description (S), objects by
// identity of the Object they hold.
type Val struct {
	K Kind
	B bool
	N float64
	S string
	O Object
}

var (
	Undef = Val{K: Undefined}
	Nul   = Val{K: Null}
	True  = Val{K: Boolean, B: true}
	False = Val{K: Boolean}
)

func Bool(b bool) Val   { return Val{K: Boolean, B: b} }
func Num(n float64) Val { return Val{K: Number, N: n} }
func Str(s string) Val  { return Val{K: String, S: s} }
func Sym(d string) Val  { return Val{K: Symbol, S: d} }
func ObjVal(o Object) Val {
	if o == nil {
		return Nul
	}
	return Val{K: Obj, O: o}
}

func (v Val) IsObject() bool { return v.K == Obj }

// Throw is a thrown completion; Class is the constructor name of the error ("TypeError") or the
// tag of a user-thrown value.
type Throw struct {
	Class string
	Step  string // which rule of the specification raised it (diagnostics only)
}

func throwTypeError(step string) { panic(&Throw{Class: "TypeError", Step: step}) }

// ThrowUser raises a script-level exception of the given class (used by trap behaviours that throw).
func ThrowUser(class string) { panic(&Throw{Class: class}) }

// Try runs fn and returns the Throw it raised, if any.
func Try(fn func()) (t *Throw) {
	defer func() {
		if x := recover(); x != nil {
			if th, ok := x.(*Throw); ok {
				t = th
				return
			}
			panic(x)
		}
	}()
	fn()
	return nil
}

// SameValue (§7.2.10).
func SameValue(a, b Val) bool {
	if a.K != b.K {
		return false
	}
	switch a.K {
	case Undefined, Null:
		return true
	case Boolean:
		return a.B == b.B
	case Number:
		if math.IsNaN(a.N) && math.IsNaN(b.N) {
			return true
		}
		if a.N == 0 && b.N == 0 {
			return math.Signbit(a.N) == math.Signbit(b.N)
		}
		return a.N == b.N
	case String, Symbol:
		return a.S == b.S
	case Obj:
		return a.O == b.O
	}
	return false
}

// ToBoolean (§7.1.2).
func ToBoolean(v Val) bool {
	switch v.K {
	case Undefined, Null:
		return false
	case Boolean:
		return v.B
	case Number:
		return !(v.N == 0 || math.IsNaN(v.N))
	case String:
		return v.S != ""
	}
	return true
}

func IsCallable(v Val) bool    { return v.K == Obj && v.O.IsCallable() }
func IsConstructor(v Val) bool { return v.K == Obj && v.O.IsConstructor() }

// Key is a property key: a string or a symbol (identified by its description).
type Key struct {
	Sym  bool
	Name string
}

func SKey(s string) Key   { return Key{Name: s} }
func SymKey(d string) Key { return Key{Sym: true, Name: d} }

func (k Key) Val() Val {
	if k.Sym {
		return Sym(k.Name)
	}
	return Str(k.Name)
}

func (k Key) String() string {
	if k.Sym {
		return "@" + k.Name
	}
	return k.Name
}

// arrayIndex reports whether the string key is an array index (canonical numeric string < 2^32-1).
func (k Key) arrayIndex() (uint32, bool) {
	if k.Sym || k.Name == "" {
		return 0, false
	}
	n, err := strconv.ParseUint(k.Name, 10, 64)
	if err != nil || strconv.FormatUint(n, 10) != k.Name || n >= 4294967295 {
		return 0, false
	}
	return uint32(n), true
}

type Tri int8

const (
	Absent Tri = iota
	No
	Yes
)

func TriOf(b bool) Tri {
	if b {
		return Yes
	}
	return No
}

// Desc is a Property Descriptor record; every field may be absent.
type Desc struct {
	HasValue bool
	Value    Val
	W, E, C  Tri
	HasGet   bool
	Get      Val
	HasSet   bool
	Set      Val
}

func (d *Desc) IsAccessor() bool { return d != nil && (d.HasGet || d.HasSet) }
func (d *Desc) IsData() bool     { return d != nil && (d.HasValue || d.W != Absent) }
func (d *Desc) IsGeneric() bool  { return d != nil && !d.IsAccessor() && !d.IsData() }
func (d *Desc) noFields() bool {
	return !d.HasValue && !d.HasGet && !d.HasSet && d.W == Absent && d.E == Absent && d.C == Absent
}

// Complete is CompletePropertyDescriptor (§6.2.6.6).
func (d *Desc) Complete() {
	if d.IsGeneric() || d.IsData() {
		if !d.HasValue {
			d.HasValue, d.Value = true, Undef
		}
		if d.W == Absent {
			d.W = No
		}
	} else {
		if !d.HasGet {
			d.HasGet, d.Get = true, Undef
		}
		if !d.HasSet {
			d.HasSet, d.Set = true, Undef
		}
	}
	if d.E == Absent {
		d.E = No
	}
	if d.C == Absent {
		d.C = No
	}
}

func triStr(t Tri) string {
	switch t {
	case Yes:
		return "T"
	case No:
		return "F"
	}
	return "-"
}

// Repr is the canonical rendering of a value shared with the script-side harness of the check:
// u, null, T/F, numbers (with -0 and NaN), "strings", @symbol, object names; unnamed objects
// structurally (arrays as [..], everything else as {key:desc,...} of own properties).
func Repr(v Val) string {
	switch v.K {
	case Undefined:
		return "u"
	case Null:
		return "null"
	case Boolean:
		if v.B {
			return "T"
		}
		return "F"
	case Number:
		if math.IsNaN(v.N) {
			return "NaN"
		}
		if v.N == 0 && math.Signbit(v.N) {
			return "-0"
		}
		return strconv.FormatFloat(v.N, 'f', -1, 64)
	case String:
		return "\"" + v.S + "\""
	case Symbol:
		return "@" + v.S
	}
	if n := v.O.Name(); n != "" {
		return n
	}
	return Structural(v.O)
}

// Structural renders an unnamed ordinary object by its own properties (data properties that are
// writable, enumerable and configurable as key:value, everything else as key:<descriptor>).
func Structural(o Object) string {
	ord, ok := o.(*Ordinary)
	if !ok {
		return "<proxy>"
	}
	var sb strings.Builder
	if ord.IsArray {
		sb.WriteByte('[')
		n := 0
		if l := ord.props[SKey("length")]; l != nil {
			n = int(l.Value.N)
		}
		for i := 0; i < n; i++ {
			if i > 0 {
				sb.WriteByte(',')
			}
			if p := ord.props[SKey(strconv.Itoa(i))]; p != nil && p.HasValue {
				sb.WriteString(Repr(p.Value))
			} else {
				sb.WriteString("-")
			}
		}
		sb.WriteByte(']')
		return sb.String()
	}
	sb.WriteByte('{')
	for i, k := range ord.OwnPropertyKeys() {
		if i > 0 {
			sb.WriteByte(',')
		}
		sb.WriteString(k.String())
		sb.WriteByte(':')
		p := ord.props[k]
		if p.HasValue && p.W == Yes && p.E == Yes && p.C == Yes {
			sb.WriteString(Repr(p.Value))
		} else {
			sb.WriteString(DescRepr(p))
		}
	}
	sb.WriteByte('}')
	return sb.String()
}

// DescRepr renders a descriptor record: <v=..,w=..,g=..,s=..,e=..,c=..> with absent fields omitted.
func DescRepr(d *Desc) string {
	if d == nil {
		return "u"
	}
	var parts []string
	if d.HasValue {
		parts = append(parts, "v="+Repr(d.Value))
	}
	if d.W != Absent {
		parts = append(parts, "w="+triStr(d.W))
	}
	if d.HasGet {
		parts = append(parts, "g="+Repr(d.Get))
	}
	if d.HasSet {
		parts = append(parts, "s="+Repr(d.Set))
	}
	if d.E != Absent {
		parts = append(parts, "e="+triStr(d.E))
	}
	if d.C != Absent {
		parts = append(parts, "c="+triStr(d.C))
	}
	return "<" + strings.Join(parts, ",") + ">"
}
