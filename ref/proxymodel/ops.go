package proxymodel

import (
	"math"
	"strconv"
)

// ToPropertyDescriptor (§6.2.6.5).
func ToPropertyDescriptor(v Val) Desc {
	if v.K != Obj {
		throwTypeError("ToPropertyDescriptor:not-object")
	}
	o := v.O
	var d Desc
	if o.HasProperty(SKey("enumerable")) {
		d.E = TriOf(ToBoolean(o.Get(SKey("enumerable"), v)))
	}
	if o.HasProperty(SKey("configurable")) {
		d.C = TriOf(ToBoolean(o.Get(SKey("configurable"), v)))
	}
	if o.HasProperty(SKey("value")) {
		d.HasValue, d.Value = true, o.Get(SKey("value"), v)
	}
	if o.HasProperty(SKey("writable")) {
		d.W = TriOf(ToBoolean(o.Get(SKey("writable"), v)))
	}
	if o.HasProperty(SKey("get")) {
		g := o.Get(SKey("get"), v)
		if !IsCallable(g) && g.K != Undefined {
			throwTypeError("ToPropertyDescriptor:getter-not-callable")
		}
		d.HasGet, d.Get = true, g
	}
	if o.HasProperty(SKey("set")) {
		s := o.Get(SKey("set"), v)
		if !IsCallable(s) && s.K != Undefined {
			throwTypeError("ToPropertyDescriptor:setter-not-callable")
		}
		d.HasSet, d.Set = true, s
	}
	if d.HasGet || d.HasSet {
		if d.HasValue || d.W != Absent {
			throwTypeError("ToPropertyDescriptor:mixed")
		}
	}
	return d
}

// FromPropertyDescriptor (§6.2.6.4).
func FromPropertyDescriptor(rl *Realm, d *Desc) Val {
	if d == nil {
		return Undef
	}
	o := NewOrdinary("", rl.ObjectProto)
	data := func(k string, v Val) { o.put(SKey(k), &Desc{HasValue: true, Value: v, W: Yes, E: Yes, C: Yes}) }
	if d.HasValue {
		data("value", d.Value)
	}
	if d.W != Absent {
		data("writable", Bool(d.W == Yes))
	}
	if d.HasGet {
		data("get", d.Get)
	}
	if d.HasSet {
		data("set", d.Set)
	}
	if d.E != Absent {
		data("enumerable", Bool(d.E == Yes))
	}
	if d.C != Absent {
		data("configurable", Bool(d.C == Yes))
	}
	return ObjVal(o)
}

// toLength is ToLength(ToNumber(v)) for the value kinds the model supports.
func toLength(v Val) int {
	var n float64
	switch v.K {
	case Undefined:
		n = math.NaN()
	case Null:
		n = 0
	case Boolean:
		if v.B {
			n = 1
		}
	case Number:
		n = v.N
	case String:
		f, err := strconv.ParseFloat(v.S, 64)
		if err != nil {
			f = math.NaN()
		}
		if v.S == "" {
			f = 0
		}
		n = f
	case Symbol:
		throwTypeError("bad-argument")
	default:
		panic("proxymodel: ToNumber of an object is not modelled")
	}
	if math.IsNaN(n) || n <= 0 {
		return 0
	}
	if n > 1<<20 {
		panic("proxymodel: length too large for the model")
	}
	return int(math.Floor(n))
}

// createKeyListFromArrayLike is CreateListFromArrayLike(obj, « String, Symbol ») (§7.3.19).
func createKeyListFromArrayLike(v Val) []Key {
	if v.K != Obj {
		throwTypeError("ownKeys:result-not-object")
	}
	n := toLength(v.O.Get(SKey("length"), v))
	var list []Key
	for i := 0; i < n; i++ {
		next := v.O.Get(SKey(strconv.Itoa(i)), v)
		switch next.K {
		case String:
			list = append(list, SKey(next.S))
		case Symbol:
			list = append(list, SymKey(next.S))
		default:
			throwTypeError("ownKeys:element-not-string-or-symbol")
		}
	}
	return list
}

// CreateListFromArrayLike with any element type (Reflect.apply / Reflect.construct).
func CreateListFromArrayLike(v Val) []Val {
	if v.K != Obj {
		throwTypeError("bad-argument")
	}
	n := toLength(v.O.Get(SKey("length"), v))
	var list []Val
	for i := 0; i < n; i++ {
		list = append(list, v.O.Get(SKey(strconv.Itoa(i)), v))
	}
	return list
}

func keysToList(rl *Realm, keys []Key) Val {
	items := make([]Val, len(keys))
	for i, k := range keys {
		items[i] = k.Val()
	}
	return ObjVal(NewList(rl.ArrayProto, items))
}

// ---- entry points: Reflect.* (§28.1) ----

func ReflectGetPrototypeOf(o Object) Val { return o.GetPrototypeOf() }
func ReflectSetPrototypeOf(o Object, proto Val) Val {
	if proto.K != Obj && proto.K != Null {
		throwTypeError("bad-argument")
	}
	return Bool(o.SetPrototypeOf(proto))
}
func ReflectIsExtensible(o Object) Val      { return Bool(o.IsExtensible()) }
func ReflectPreventExtensions(o Object) Val { return Bool(o.PreventExtensions()) }
func ReflectGetOwnPropertyDescriptor(rl *Realm, o Object, k Key) Val {
	return FromPropertyDescriptor(rl, o.GetOwnProperty(k))
}
func ReflectDefineProperty(o Object, k Key, attributes Val) Val {
	d := ToPropertyDescriptor(attributes)
	return Bool(o.DefineOwnProperty(k, d))
}
func ReflectHas(o Object, k Key) Val               { return Bool(o.HasProperty(k)) }
func ReflectGet(o Object, k Key, receiver Val) Val { return o.Get(k, receiver) }
func ReflectSet(o Object, k Key, v, receiver Val) Val {
	return Bool(o.Set(k, v, receiver))
}
func ReflectDeleteProperty(o Object, k Key) Val { return Bool(o.Delete(k)) }
func ReflectOwnKeys(rl *Realm, o Object) Val    { return keysToList(rl, o.OwnPropertyKeys()) }
func ReflectApply(f Val, this Val, args Val) Val {
	if !IsCallable(f) {
		throwTypeError("bad-argument")
	}
	list := CreateListFromArrayLike(args)
	return f.O.Call(this, list)
}
func ReflectConstruct(f Val, args Val, newTarget Val) Val {
	if !IsConstructor(f) {
		throwTypeError("bad-argument")
	}
	if !IsConstructor(newTarget) {
		throwTypeError("bad-argument")
	}
	list := CreateListFromArrayLike(args)
	return f.O.Construct(list, newTarget.O)
}

// ---- entry points: Object.* (§20.1.2), Object.prototype.* and syntax ----

func ObjectGetPrototypeOf(o Object) Val { return o.GetPrototypeOf() }

// ObjectSetPrototypeOf returns O; a false status is a TypeError.
func ObjectSetPrototypeOf(o Object, proto Val) Val {
	if proto.K != Obj && proto.K != Null {
		throwTypeError("bad-argument")
	}
	if !o.SetPrototypeOf(proto) {
		throwTypeError("false-status")
	}
	return ObjVal(o)
}
func ObjectIsExtensible(o Object) Val { return Bool(o.IsExtensible()) }
func ObjectPreventExtensions(o Object) Val {
	if !o.PreventExtensions() {
		throwTypeError("false-status")
	}
	return ObjVal(o)
}
func ObjectGetOwnPropertyDescriptor(rl *Realm, o Object, k Key) Val {
	return FromPropertyDescriptor(rl, o.GetOwnProperty(k))
}

// ObjectDefineProperty is Object.defineProperty: DefinePropertyOrThrow, returns O.
func ObjectDefineProperty(o Object, k Key, attributes Val) Val {
	d := ToPropertyDescriptor(attributes)
	definePropertyOrThrow(o, k, d)
	return ObjVal(o)
}

func definePropertyOrThrow(o Object, k Key, d Desc) {
	if !o.DefineOwnProperty(k, d) {
		throwTypeError("false-status")
	}
}

// HasOwnProperty (§7.3.13): Object.prototype.hasOwnProperty / Object.hasOwn.
func HasOwnProperty(o Object, k Key) Val { return Bool(o.GetOwnProperty(k) != nil) }

// PropertyIsEnumerable (§20.1.3.4).
func PropertyIsEnumerable(o Object, k Key) Val {
	d := o.GetOwnProperty(k)
	if d == nil {
		return False
	}
	return Bool(d.E == Yes)
}

// IsPrototypeOf (§20.1.3.3): O.isPrototypeOf(V) for an object V; also the loop of OrdinaryHasInstance.
func IsPrototypeOf(o Object, v Object) Val {
	cur := v
	for {
		p := cur.GetPrototypeOf()
		if p.K != Obj {
			return False
		}
		if p.O == o {
			return True
		}
		cur = p.O
	}
}

func ObjectGetOwnPropertyNames(rl *Realm, o Object) Val   { return getOwnPropertyKeys(rl, o, false) }
func ObjectGetOwnPropertySymbols(rl *Realm, o Object) Val { return getOwnPropertyKeys(rl, o, true) }
func getOwnPropertyKeys(rl *Realm, o Object, syms bool) Val {
	var res []Key
	for _, k := range o.OwnPropertyKeys() {
		if k.Sym == syms {
			res = append(res, k)
		}
	}
	return keysToList(rl, res)
}

// ObjectKeys is EnumerableOwnProperties(O, key) (§7.3.23).
func ObjectKeys(rl *Realm, o Object) Val {
	var res []Key
	for _, k := range o.OwnPropertyKeys() {
		if k.Sym {
			continue
		}
		d := o.GetOwnProperty(k)
		if d != nil && d.E == Yes {
			res = append(res, k)
		}
	}
	return keysToList(rl, res)
}

// ForIn lists the keys a for-in loop visits (§14.7.5.10.2.1 %ForInIteratorPrototype%.next, run to completion).
func ForIn(rl *Realm, o Object) Val {
	var res []Key
	visited := map[Key]bool{}
	cur := o
	for {
		var remaining []Key
		for _, k := range cur.OwnPropertyKeys() {
			if !k.Sym {
				remaining = append(remaining, k)
			}
		}
		for _, k := range remaining {
			if visited[k] {
				continue
			}
			d := cur.GetOwnProperty(k)
			if d != nil {
				visited[k] = true
				if d.E == Yes {
					res = append(res, k)
				}
			}
		}
		p := cur.GetPrototypeOf()
		if p.K != Obj {
			break
		}
		cur = p.O
	}
	return keysToList(rl, res)
}

// SetIntegrityLevel (§7.3.15); frozen=false means sealed.
func SetIntegrityLevel(o Object, frozen bool) bool {
	if !o.PreventExtensions() {
		return false
	}
	keys := o.OwnPropertyKeys()
	if !frozen {
		for _, k := range keys {
			definePropertyOrThrow(o, k, Desc{C: No})
		}
		return true
	}
	for _, k := range keys {
		cur := o.GetOwnProperty(k)
		if cur != nil {
			d := Desc{C: No}
			if !cur.IsAccessor() {
				d.W = No
			}
			definePropertyOrThrow(o, k, d)
		}
	}
	return true
}

// ObjectFreeze / ObjectSeal return O or throw.
func ObjectFreeze(o Object) Val {
	if !SetIntegrityLevel(o, true) {
		throwTypeError("false-status")
	}
	return ObjVal(o)
}
func ObjectSeal(o Object) Val {
	if !SetIntegrityLevel(o, false) {
		throwTypeError("false-status")
	}
	return ObjVal(o)
}

// TestIntegrityLevel (§7.3.16).
func TestIntegrityLevel(o Object, frozen bool) Val {
	if o.IsExtensible() {
		return False
	}
	for _, k := range o.OwnPropertyKeys() {
		cur := o.GetOwnProperty(k)
		if cur != nil {
			if cur.C == Yes {
				return False
			}
			if frozen && cur.IsData() && cur.W == Yes {
				return False
			}
		}
	}
	return True
}

// GetValue of a property reference o[k] (receiver = o).
func GetV(o Object, k Key) Val { return o.Get(k, ObjVal(o)) }

// Assign is o[k] = v (PutValue, §6.2.5.6): a false status throws in strict code; the value of the expression is v.
func Assign(o Object, k Key, v Val, strict bool) Val {
	ok := o.Set(k, v, ObjVal(o))
	if !ok && strict {
		throwTypeError("false-status")
	}
	return v
}

// DeleteOp is `delete o[k]` (§13.5.1.2).
func DeleteOp(o Object, k Key, strict bool) Val {
	ok := o.Delete(k)
	if !ok && strict {
		throwTypeError("false-status")
	}
	return Bool(ok)
}

// In is `k in o`.
func In(o Object, k Key) Val { return Bool(o.HasProperty(k)) }

// IsArray (§7.2.2) of an object: looks through proxies; a revoked proxy is a TypeError.
func IsArray(o Object) Val {
	switch x := o.(type) {
	case *Proxy:
		if x.Target == nil {
			throwTypeError("revoked")
		}
		return IsArray(x.Target)
	case *Ordinary:
		return Bool(x.IsArray)
	}
	return False
}

// TypeOf of an object value.
func TypeOf(o Object) Val {
	if o.IsCallable() {
		return Str("function")
	}
	return Str("object")
}

// CallOp is f(...args) with the given this value: a non-callable f is a TypeError.
func CallOp(f Object, this Val, args []Val) Val {
	if !f.IsCallable() {
		throwTypeError("bad-argument")
	}
	return f.Call(this, args)
}

// NewOp is `new f(...args)`.
func NewOp(f Object, args []Val) Val {
	if !f.IsConstructor() {
		throwTypeError("bad-argument")
	}
	return f.Construct(args, f)
}
