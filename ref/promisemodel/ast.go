// Package promisemodel is a small reference model of the ECMA-262 promise machinery (job queue,
// CreateResolvingFunctions, NewPromiseReactionJob, NewPromiseResolveThenableJob, PerformPromiseThen,
// Promise.prototype.then/catch/finally, Promise.resolve/reject/all/allSettled/race/any, Await,
// HostPromiseRejectionTracker), written from the specification text, that executes "promise operation
// programs": a tiny JSON-serialisable AST of top-level operations whose handlers, executors and thenables are
// instrumented closures. The same AST is printed as JavaScript (JS) and run on the implementation under test;
// both sides produce a transcript (global event log incl. tracker calls, promise states at every return to the
// host) that must be equal. The model imports nothing from the implementation.
package promisemodel

import (
	"fmt"
	"strconv"
	"strings"
)

// ---- expressions ----

type VK int

const (
	VUndef VK = iota
	VConst    // N
	VPVar     // global promise variable pN (undefined until its defining operation has completed)
	VObj      // object literal O
)

type Expr struct {
	K VK       `json:"k,omitempty"`
	N int      `json:"n,omitempty"`
	O *ObjSpec `json:"o,omitempty"`
}

func Const(n int) Expr       { return Expr{K: VConst, N: n} }
func PVar(n int) Expr        { return Expr{K: VPVar, N: n} }
func Obj(o *ObjSpec) Expr    { return Expr{K: VObj, O: o} }
func Undef() Expr            { return Expr{} }
func (e Expr) IsUndef() bool { return e.K == VUndef }

type ThenKind int

const (
	ThenNone        ThenKind = iota // no "then" property
	ThenFunc                        // get then(){log("og",id); return function(a0,a1){...Fn...}}
	ThenGetterThrow                 // get then(){log("og",id); throw V}
	ThenNonCallable                 // then: 5
)

type CtorKind int

const (
	CtorLogging CtorKind = iota // get constructor(){log("oc",id)}   (returns undefined)
	CtorPromise                 // constructor: Promise              (a non-promise claiming to be one)
)

// ObjSpec describes a non-promise object literal.
type ObjSpec struct {
	ID    int      `json:"id"`
	Then  ThenKind `json:"then,omitempty"`
	Fn    *Func    `json:"fn,omitempty"`
	Throw int      `json:"throw,omitempty"` // ThenGetterThrow: thrown constant
	Ctor  CtorKind `json:"ctor,omitempty"`
}

// ---- functions (executors, handlers, then-methods) ----

type EndKind int

const (
	EndUndef  EndKind = iota // falls off the end
	EndReturn                // return V
	EndThrow                 // throw V
)

type CalleeKind int

const (
	CalleeArg  CalleeKind = iota // a0 (resolve) / a1 (reject) of the enclosing function
	CalleeSlot                   // saved capability R[slot] / J[slot] (no-op while unset)
	CalleeGo                     // Go native goRes(slot,v) / goRej(slot,v) calling the resolver returned by Runtime.NewPromise
)

type Callee struct {
	K    CalleeKind `json:"k,omitempty"`
	Slot int        `json:"slot,omitempty"`
	Rej  bool       `json:"rej,omitempty"`
}

type Call struct {
	C Callee `json:"c"`
	V Expr   `json:"v"`
}

// Func is an instrumented function: function(a0,a1){ log(Tag[,a0]); [R[s]=a0;J[s]=a1;] calls...; return/throw }
type Func struct {
	Tag    string  `json:"tag"`
	LogArg bool    `json:"logarg,omitempty"`
	Save   int     `json:"save,omitempty"` // slot+1; 0 = do not save
	Body   []Call  `json:"body,omitempty"`
	End    EndKind `json:"end,omitempty"`
	V      Expr    `json:"v"`
}

// ---- operations ----

type HK int

const (
	HUndef       HK = iota // undefined
	HNonCallable           // 7
	HFunc                  // JS function F
	HNative                // a Go native function used directly as the handler: logs Tag:arg, calls the Go resolver C with V
)

type Handler struct {
	K   HK     `json:"k,omitempty"`
	F   *Func  `json:"f,omitempty"`
	Tag string `json:"tag,omitempty"`
	C   Callee `json:"c"`
	V   Expr   `json:"v"`
}

type OpKind int

const (
	OpNew        OpKind = iota // pN = new Promise(F)
	OpThen                     // pN = pP.then(H1,H2)
	OpCatch                    // pN = pP.catch(H1)
	OpFinally                  // pN = pP.finally(H1)
	OpResolve                  // pN = Promise.resolve(V)
	OpReject                   // pN = Promise.reject(V)
	OpAll                      // pN = Promise.all([Items])
	OpAllSettled               //
	OpRace                     //
	OpAny                      //
	OpAsync                    // pN = (async function(){...})()
	OpGoNew                    // pN = goNew(N)   (Runtime.NewPromise called by a native; resolvers kept in Go)
	OpCall                     // C(V) at script top level
	OpBreak                    // return to Go (RunProgram ends, next op starts a new RunProgram)
	OpGoSettle                 // return to Go; Go calls the NewPromise resolver C with V; (implicit break after)
	OpTap                      // instrument pP with logging own "then"/"constructor" getters
)

var opNames = [...]string{"new", "then", "catch", "finally", "resolve", "reject", "all", "allSettled", "race", "any", "async", "goNew", "call", "break", "goSettle", "tap"}

func (k OpKind) String() string { return opNames[k] }

type Async struct {
	Tag    string  `json:"tag"`
	Awaits []Expr  `json:"awaits,omitempty"`
	End    EndKind `json:"end,omitempty"`
	V      Expr    `json:"v"`
}

type Op struct {
	K     OpKind   `json:"k"`
	P     int      `json:"p,omitempty"`
	F     *Func    `json:"f,omitempty"`
	H1    *Handler `json:"h1,omitempty"`
	H2    *Handler `json:"h2,omitempty"`
	V     Expr     `json:"v"`
	Items []Expr   `json:"items,omitempty"`
	C     Callee   `json:"c"`
	A     *Async   `json:"a,omitempty"`
}

// Defines reports whether the operation defines the next promise variable.
func (o *Op) Defines() bool { return o.K <= OpGoNew }

type Program struct {
	Ops []Op `json:"ops"`
}

// NumVars is the number of promise variables the program defines.
func (p *Program) NumVars() int {
	n := 0
	for i := range p.Ops {
		if p.Ops[i].Defines() {
			n++
		}
	}
	return n
}

// ---- JavaScript printer ----

// Prelude is run once per runtime before the first segment. log, goNew, goRes, goRej, nativeH are Go natives.
const Prelude = `var R=[],J=[];
function call(f,v){if(f)f(v)}
function tap(p,i){var t=p.then,c=p.constructor;
Object.defineProperty(p,"then",{get:function(){log("gt",i);return t}});
Object.defineProperty(p,"constructor",{get:function(){log("gc",i);return c}})}
`

func (e Expr) JS() string {
	switch e.K {
	case VConst:
		return strconv.Itoa(e.N)
	case VPVar:
		return "p" + strconv.Itoa(e.N)
	case VObj:
		return e.O.JS()
	}
	return "undefined"
}

func (o *ObjSpec) JS() string {
	var sb strings.Builder
	fmt.Fprintf(&sb, "{id:%d,", o.ID)
	if o.Ctor == CtorPromise {
		sb.WriteString("constructor:Promise")
	} else {
		fmt.Fprintf(&sb, "get constructor(){log(\"oc\",%d)}", o.ID)
	}
	switch o.Then {
	case ThenFunc:
		fmt.Fprintf(&sb, ",get then(){log(\"og\",%d);return %s}", o.ID, o.Fn.JS())
	case ThenGetterThrow:
		fmt.Fprintf(&sb, ",get then(){log(\"og\",%d);throw %d}", o.ID, o.Throw)
	case ThenNonCallable:
		sb.WriteString(",then:5")
	}
	sb.WriteString("}")
	return sb.String()
}

func (c Callee) JS(v Expr) string {
	switch c.K {
	case CalleeArg:
		if c.Rej {
			return "a1(" + v.JS() + ")"
		}
		return "a0(" + v.JS() + ")"
	case CalleeSlot:
		if c.Rej {
			return fmt.Sprintf("call(J[%d],%s)", c.Slot, v.JS())
		}
		return fmt.Sprintf("call(R[%d],%s)", c.Slot, v.JS())
	}
	if c.Rej {
		return fmt.Sprintf("goRej(%d,%s)", c.Slot, v.JS())
	}
	return fmt.Sprintf("goRes(%d,%s)", c.Slot, v.JS())
}

func (f *Func) JS() string {
	var sb strings.Builder
	sb.WriteString("function(a0,a1){")
	if f.LogArg {
		fmt.Fprintf(&sb, "log(%q,a0);", f.Tag)
	} else {
		fmt.Fprintf(&sb, "log(%q);", f.Tag)
	}
	if f.Save > 0 {
		fmt.Fprintf(&sb, "R[%d]=a0;J[%d]=a1;", f.Save-1, f.Save-1)
	}
	for _, c := range f.Body {
		sb.WriteString(c.C.JS(c.V))
		sb.WriteString(";")
	}
	switch f.End {
	case EndReturn:
		sb.WriteString("return " + f.V.JS() + ";")
	case EndThrow:
		sb.WriteString("throw " + f.V.JS() + ";")
	}
	sb.WriteString("}")
	return sb.String()
}

func (h *Handler) JS() string {
	if h == nil {
		return "undefined"
	}
	switch h.K {
	case HNonCallable:
		return "7"
	case HFunc:
		return h.F.JS()
	case HNative:
		return fmt.Sprintf("nativeH(%q,%d,%v,%s)", h.Tag, h.C.Slot, h.C.Rej, h.V.JS())
	}
	return "undefined"
}

func (a *Async) JS() string {
	var sb strings.Builder
	fmt.Fprintf(&sb, "(async function(){log(\"%s.0\");", a.Tag)
	for i, e := range a.Awaits {
		if i == 0 {
			sb.WriteString("var ")
		}
		fmt.Fprintf(&sb, "v=await %s;log(\"%s.%d\",v);", e.JS(), a.Tag, i+1)
	}
	switch a.End {
	case EndReturn:
		sb.WriteString("return " + a.V.JS() + ";")
	case EndThrow:
		sb.WriteString("throw " + a.V.JS() + ";")
	}
	sb.WriteString("})()")
	return sb.String()
}

func itemsJS(items []Expr) string {
	s := make([]string, len(items))
	for i, e := range items {
		s[i] = e.JS()
	}
	return "[" + strings.Join(s, ",") + "]"
}

// JS prints one operation; v is the index of the promise variable it defines (if it defines one).
func (o *Op) JS(v int) string {
	lhs := fmt.Sprintf("p%d=", v)
	switch o.K {
	case OpNew:
		return lhs + "new Promise(" + o.F.JS() + ");"
	case OpThen:
		return fmt.Sprintf("%sp%d.then(%s,%s);", lhs, o.P, o.H1.JS(), o.H2.JS())
	case OpCatch:
		return fmt.Sprintf("%sp%d.catch(%s);", lhs, o.P, o.H1.JS())
	case OpFinally:
		return fmt.Sprintf("%sp%d.finally(%s);", lhs, o.P, o.H1.JS())
	case OpResolve:
		return lhs + "Promise.resolve(" + o.V.JS() + ");"
	case OpReject:
		return lhs + "Promise.reject(" + o.V.JS() + ");"
	case OpAll, OpAllSettled, OpRace, OpAny:
		return lhs + "Promise." + o.K.String() + "(" + itemsJS(o.Items) + ");"
	case OpAsync:
		return lhs + o.A.JS() + ";"
	case OpGoNew:
		return fmt.Sprintf("%sgoNew(%d);", lhs, v)
	case OpCall:
		return o.C.JS(o.V) + ";"
	case OpTap:
		return fmt.Sprintf("tap(p%d,%d);", o.P, o.P)
	}
	return ""
}

// Segment is the unit between two returns to Go: either a script (JS) or a Go-side resolver call.
type Segment struct {
	JS  string `json:"js,omitempty"`
	Go  *Call  `json:"go,omitempty"`  // Go calls resolver Go.C with value Go.V
	Ops []int  `json:"ops,omitempty"` // indices of the operations in this segment
}

// Segments splits the program at OpBreak / OpGoSettle and prints the script segments.
func (p *Program) Segments() []Segment {
	var segs []Segment
	var cur Segment
	var sb strings.Builder
	flush := func() {
		if len(cur.Ops) > 0 {
			cur.JS = sb.String()
			segs = append(segs, cur)
		}
		cur = Segment{}
		sb.Reset()
	}
	v := 0
	for i := range p.Ops {
		o := &p.Ops[i]
		switch o.K {
		case OpBreak:
			flush()
		case OpGoSettle:
			flush()
			segs = append(segs, Segment{Go: &Call{C: o.C, V: o.V}, Ops: []int{i}})
		default:
			sb.WriteString(o.JS(v))
			sb.WriteString("\n")
			cur.Ops = append(cur.Ops, i)
			if o.Defines() {
				v++
			}
		}
	}
	flush()
	return segs
}

// Decl declares the promise variables (first script of a run).
func (p *Program) Decl() string {
	n := p.NumVars()
	if n == 0 {
		return ""
	}
	s := make([]string, n)
	for i := range s {
		s[i] = "p" + strconv.Itoa(i)
	}
	return "var " + strings.Join(s, ",") + ";\n"
}

// Text renders the whole program as commented JavaScript (for replay files and reports).
func (p *Program) Text() string {
	var sb strings.Builder
	sb.WriteString(p.Decl())
	for i, s := range p.Segments() {
		if i > 0 {
			sb.WriteString("// ---- return to Go ----\n")
		}
		if s.Go != nil {
			w := "resolve"
			if s.Go.C.Rej {
				w = "reject"
			}
			fmt.Fprintf(&sb, "// Go: %s[%d](%s)   (resolver from Runtime.NewPromise)\n", w, s.Go.C.Slot, s.Go.V.JS())
		} else {
			sb.WriteString(s.JS)
		}
	}
	return sb.String()
}
