package promisemodel

import (
	"fmt"
	"strconv"
	"strings"
)

// ---- values ----

type ValKind int

const (
	KUndef ValKind = iota
	KNum
	KPromise
	KObject  // user object literal (ObjSpec)
	KArray   // L
	KError   // S = name, L = errors (AggregateError)
	KSettled // allSettled record: S = status, L[0] = value/reason
	KFn
	KCtor // the %Promise% constructor
)

type Val struct {
	K ValKind
	N int
	P *Promise
	O *ObjSpec
	L []Val
	S string
	F *Fn
}

var undef = Val{}

// Fn is a callable. Call returns (value, thrown).
type Fn struct {
	Name string
	Call func(this Val, args []Val) (Val, bool)
}

type State int

const (
	Pending State = iota
	Fulfilled
	Rejected
)

type Promise struct {
	ID               int
	State            State
	Result           Val
	FulfillReactions []*reaction
	RejectReactions  []*reaction
	Handled          bool
	Tapped           bool
}

type reactionType int

const (
	reactFulfill reactionType = iota
	reactReject
)

type capability struct {
	promise         *Promise
	resolve, reject *Fn
}

type reaction struct {
	cap     *capability // nil = undefined (await)
	typ     reactionType
	handler *Fn // nil = empty
}

type job struct {
	desc string
	run  func()
}

type entry struct {
	tag    string
	v      Val
	hasV   bool
	js     bool // produced by the JS-visible log() native (counts as an interrupt point)
	states []pstate
	seg    bool
}

type pstate struct {
	state  State
	result Val
}

// M is one model execution.
type M struct {
	prog     *Program
	vars     []Val // promise variables (undefined until defined)
	nvars    int
	slotsR   map[int]*Fn
	slotsJ   map[int]*Fn
	goRes    map[int]*Fn
	goRej    map[int]*Fn
	queue    []job
	entries  []entry
	promises []*Promise
	thenFn   *Fn
	tapVar   map[int]*Promise

	// statistics / lock-step interface
	Transitions int              // ops + jobs executed
	OnState     func(key uint64) // called with the configuration key after every transition (may be nil)
	JSLogs      int              // number of JS-visible log() calls so far
	StopAtJSLog int              // >0: stop the whole execution right after that JS log call (interrupt variant)
	stopped     bool
	ctx         []string // where user code is being run from (script / job kind / async-start), for reports
	StopCtx     string   // ctx at the moment of the stop
}

func (m *M) enter(c string) { m.ctx = append(m.ctx, c) }
func (m *M) exit()          { m.ctx = m.ctx[:len(m.ctx)-1] }

type stopSignal struct{}

// ---- rendering ----

func (m *M) name(p *Promise) string {
	for i := 0; i < m.nvars; i++ {
		if m.vars[i].K == KPromise && m.vars[i].P == p {
			return "p" + strconv.Itoa(i)
		}
	}
	return "anon"
}

func (m *M) show(v Val) string {
	switch v.K {
	case KUndef:
		return "u"
	case KNum:
		return strconv.Itoa(v.N)
	case KPromise:
		return m.name(v.P)
	case KObject:
		return "o" + strconv.Itoa(v.O.ID)
	case KArray:
		s := make([]string, len(v.L))
		for i, e := range v.L {
			s[i] = m.show(e)
		}
		return "[" + strings.Join(s, ",") + "]"
	case KError:
		if v.S == "AggregateError" {
			return "AggregateError" + m.show(Val{K: KArray, L: v.L})
		}
		return v.S
	case KSettled:
		return "{" + v.S + ":" + m.show(v.L[0]) + "}"
	case KFn:
		return "fn"
	case KCtor:
		return "Promise"
	}
	return "?"
}

// Transcript renders everything observed so far.
func (m *M) Transcript() []string {
	res := make([]string, 0, len(m.entries))
	for _, e := range m.entries {
		switch {
		case e.seg:
			var sb strings.Builder
			sb.WriteString("==")
			for i, s := range e.states {
				sb.WriteString(" p" + strconv.Itoa(i) + "=")
				sb.WriteString(StateString(int(s.state), m.show(s.result)))
			}
			res = append(res, sb.String())
		case e.hasV:
			res = append(res, e.tag+":"+m.show(e.v))
		default:
			res = append(res, e.tag)
		}
	}
	return res
}

// StateString is the shared rendering of an observed promise state.
func StateString(state int, result string) string {
	switch State(state) {
	case Pending:
		return "P"
	case Fulfilled:
		return "F(" + result + ")"
	}
	return "R(" + result + ")"
}

func (m *M) log(tag string) {
	m.entries = append(m.entries, entry{tag: tag, js: true})
	m.afterJSLog()
}

func (m *M) logV(tag string, v Val) {
	m.entries = append(m.entries, entry{tag: tag, v: v, hasV: true, js: true})
	m.afterJSLog()
}

func (m *M) afterJSLog() {
	m.JSLogs++
	if m.StopAtJSLog > 0 && m.JSLogs == m.StopAtJSLog {
		m.stopped = true
		m.StopCtx = strings.Join(m.ctx, "/")
		panic(stopSignal{})
	}
}

func (m *M) logGo(tag string, v Val) {
	m.entries = append(m.entries, entry{tag: tag, v: v, hasV: true})
}

// HostPromiseRejectionTracker
func (m *M) track(p *Promise, op string) {
	tag := "T+"
	if op == "handle" {
		tag = "T-"
	}
	m.entries = append(m.entries, entry{tag: tag, v: Val{K: KPromise, P: p}, hasV: true})
}

// ---- configuration key (state counting) ----

type hasher uint64

func (h *hasher) str(s string) {
	x := uint64(*h)
	for i := 0; i < len(s); i++ {
		x ^= uint64(s[i])
		x *= 1099511628211
	}
	x ^= 0xff
	x *= 1099511628211
	*h = hasher(x)
}

func (m *M) shapeOf(v Val) string {
	if v.K == KPromise {
		return "#" + strconv.Itoa(v.P.ID)
	}
	if v.K == KNum {
		return "n" // constants are unique tags, not part of the shape
	}
	if v.K == KArray || v.K == KError || v.K == KSettled {
		s := make([]string, len(v.L))
		for i, e := range v.L {
			s[i] = m.shapeOf(e)
		}
		return v.S + "[" + strings.Join(s, ",") + "]"
	}
	if v.K == KObject {
		return "o" + strconv.Itoa(int(v.O.Then))
	}
	return m.show(v)
}

// Key is a hash of the model configuration: every promise (state, shape of result, handled flag, number and
// kind of pending reactions) in creation order plus the job queue (kind of each job).
func (m *M) Key() uint64 {
	h := hasher(14695981039346656037)
	for _, p := range m.promises {
		h.str(strconv.Itoa(int(p.State)))
		h.str(m.shapeOf(p.Result))
		if p.Handled {
			h.str("h")
		}
		if p.Tapped {
			h.str("t")
		}
		for i, r := range p.FulfillReactions {
			h.str(reactionShape(r))
			h.str(reactionShape(p.RejectReactions[i]))
		}
		h.str("|")
	}
	for _, j := range m.queue {
		h.str(j.desc)
	}
	return uint64(h)
}

func reactionShape(r *reaction) string {
	s := "e"
	if r.handler != nil {
		s = r.handler.Name
	}
	if r.cap != nil {
		s += ">" + strconv.Itoa(r.cap.promise.ID)
	}
	return s
}

func (m *M) transition() {
	m.Transitions++
	if m.OnState != nil {
		m.OnState(m.Key())
	}
}

// ---- 27.2.1 abstract operations ----

func (m *M) newPromise() *Promise {
	p := &Promise{ID: len(m.promises)}
	m.promises = append(m.promises, p)
	return p
}

func isCallable(v Val) bool { return v.K == KFn }
func pval(p *Promise) Val   { return Val{K: KPromise, P: p} }
func fval(f *Fn) Val        { return Val{K: KFn, F: f} }

func (m *M) call(f *Fn, this Val, args ...Val) (Val, bool) { return f.Call(this, args) }

func arg(args []Val, i int) Val {
	if i < len(args) {
		return args[i]
	}
	return undef
}

// 27.2.1.3 CreateResolvingFunctions
func (m *M) createResolvingFunctions(p *Promise) (resolve, reject *Fn) {
	alreadyResolved := false
	resolve = &Fn{Name: "resolve#" + strconv.Itoa(p.ID), Call: func(this Val, args []Val) (Val, bool) {
		// 27.2.1.3.2 Promise Resolve Functions
		if alreadyResolved {
			return undef, false
		}
		alreadyResolved = true
		resolution := arg(args, 0)
		if resolution.K == KPromise && resolution.P == p {
			m.rejectPromise(p, Val{K: KError, S: "TypeError"})
			return undef, false
		}
		if !isObject(resolution) {
			m.fulfillPromise(p, resolution)
			return undef, false
		}
		then, thrown := m.get(resolution, "then")
		if thrown {
			m.rejectPromise(p, then)
			return undef, false
		}
		if !isCallable(then) {
			m.fulfillPromise(p, resolution)
			return undef, false
		}
		thenFn := then.F
		// 27.2.2.2 NewPromiseResolveThenableJob
		m.enqueue(job{desc: "thenable:" + thenFn.Name + ">" + strconv.Itoa(p.ID), run: func() {
			res, rej := m.createResolvingFunctions(p)
			r, thrown := m.call(thenFn, resolution, fval(res), fval(rej))
			if thrown {
				m.call(rej, undef, r)
			}
		}})
		return undef, false
	}}
	reject = &Fn{Name: "reject#" + strconv.Itoa(p.ID), Call: func(this Val, args []Val) (Val, bool) {
		// 27.2.1.3.1 Promise Reject Functions
		if alreadyResolved {
			return undef, false
		}
		alreadyResolved = true
		m.rejectPromise(p, arg(args, 0))
		return undef, false
	}}
	return
}

func isObject(v Val) bool {
	switch v.K {
	case KUndef, KNum:
		return false
	}
	return true
}

// 27.2.1.4 FulfillPromise
func (m *M) fulfillPromise(p *Promise, v Val) {
	reactions := p.FulfillReactions
	p.Result = v
	p.FulfillReactions, p.RejectReactions = nil, nil
	p.State = Fulfilled
	m.triggerPromiseReactions(reactions, v)
}

// 27.2.1.7 RejectPromise
func (m *M) rejectPromise(p *Promise, reason Val) {
	reactions := p.RejectReactions
	p.Result = reason
	p.FulfillReactions, p.RejectReactions = nil, nil
	p.State = Rejected
	if !p.Handled {
		m.track(p, "reject")
	}
	m.triggerPromiseReactions(reactions, reason)
}

// 27.2.1.8 TriggerPromiseReactions
func (m *M) triggerPromiseReactions(reactions []*reaction, argument Val) {
	for _, r := range reactions {
		m.enqueue(m.newPromiseReactionJob(r, argument))
	}
}

func (m *M) enqueue(j job) { m.queue = append(m.queue, j) }

// 27.2.2.1 NewPromiseReactionJob
func (m *M) newPromiseReactionJob(r *reaction, argument Val) job {
	return job{desc: "react:" + reactionShape(r), run: func() {
		var result Val
		var thrown bool
		if r.handler == nil {
			result = argument
			thrown = r.typ == reactReject
		} else {
			result, thrown = m.call(r.handler, undef, argument)
		}
		if r.cap == nil {
			return
		}
		if thrown {
			m.call(r.cap.reject, undef, result)
		} else {
			m.call(r.cap.resolve, undef, result)
		}
	}}
}

// 27.2.1.5 NewPromiseCapability(%Promise%)
func (m *M) newPromiseCapability() *capability {
	p := m.newPromise()
	res, rej := m.createResolvingFunctions(p)
	return &capability{promise: p, resolve: res, reject: rej}
}

// 27.2.5.4.1 PerformPromiseThen
func (m *M) performPromiseThen(p *Promise, onFulfilled, onRejected Val, cap *capability) {
	fr := &reaction{cap: cap, typ: reactFulfill}
	rr := &reaction{cap: cap, typ: reactReject}
	if isCallable(onFulfilled) {
		fr.handler = onFulfilled.F
	}
	if isCallable(onRejected) {
		rr.handler = onRejected.F
	}
	switch p.State {
	case Pending:
		p.FulfillReactions = append(p.FulfillReactions, fr)
		p.RejectReactions = append(p.RejectReactions, rr)
	case Fulfilled:
		m.enqueue(m.newPromiseReactionJob(fr, p.Result))
	default:
		if !p.Handled {
			m.track(p, "handle")
		}
		m.enqueue(m.newPromiseReactionJob(rr, p.Result))
	}
	p.Handled = true
}

// Get(v, name) for the two property names the promise algorithms read.
func (m *M) get(v Val, name string) (Val, bool) {
	switch v.K {
	case KPromise:
		if name == "then" {
			if v.P.Tapped {
				m.logV("gt", Val{K: KNum, N: m.tapIndex(v.P)})
			}
			return fval(m.thenFn), false
		}
		if name == "constructor" {
			if v.P.Tapped {
				m.logV("gc", Val{K: KNum, N: m.tapIndex(v.P)})
			}
			return Val{K: KCtor}, false
		}
	case KObject:
		o := v.O
		if name == "then" {
			switch o.Then {
			case ThenFunc:
				m.logV("og", Val{K: KNum, N: o.ID})
				return fval(m.closure(o.Fn, -1)), false
			case ThenGetterThrow:
				m.logV("og", Val{K: KNum, N: o.ID})
				return Val{K: KNum, N: o.Throw}, true
			case ThenNonCallable:
				return Val{K: KNum, N: 5}, false
			}
			return undef, false
		}
		if name == "constructor" {
			if o.Ctor == CtorPromise {
				return Val{K: KCtor}, false
			}
			m.logV("oc", Val{K: KNum, N: o.ID})
			return undef, false
		}
	}
	return undef, false
}

func (m *M) tapIndex(p *Promise) int {
	// tap(pP,P) logs the variable index it was applied to
	for i, pp := range m.tapVar {
		if pp == p {
			return i
		}
	}
	return -1
}

// 7.3.22 SpeciesConstructor(promise, %Promise%): only the observable Get is modelled; every constructor in
// the program space is %Promise% whose @@species is itself.
func (m *M) speciesConstructor(p *Promise) {
	m.get(pval(p), "constructor")
}

// 27.2.5.4 Promise.prototype.then
func (m *M) promiseThen(this Val, args []Val) (Val, bool) {
	if this.K != KPromise {
		return Val{K: KError, S: "TypeError"}, true
	}
	m.speciesConstructor(this.P)
	cap := m.newPromiseCapability()
	m.performPromiseThen(this.P, arg(args, 0), arg(args, 1), cap)
	return pval(cap.promise), false
}

// 7.3.12 Invoke(v, "then", args)
func (m *M) invokeThen(v Val, args ...Val) (Val, bool) {
	f, thrown := m.get(v, "then")
	if thrown {
		return f, true
	}
	if !isCallable(f) {
		return Val{K: KError, S: "TypeError"}, true
	}
	return m.call(f.F, v, args...)
}

// 27.2.4.7.1 PromiseResolve(%Promise%, x)
func (m *M) promiseResolve(x Val) (Val, bool) {
	if x.K == KPromise {
		c, thrown := m.get(x, "constructor")
		if thrown {
			return c, true
		}
		if c.K == KCtor {
			return x, false
		}
	}
	cap := m.newPromiseCapability()
	m.call(cap.resolve, undef, x)
	return pval(cap.promise), false
}

// 27.2.5.3 Promise.prototype.finally
func (m *M) promiseFinally(this Val, onFinally Val) (Val, bool) {
	if this.K != KPromise {
		return Val{K: KError, S: "TypeError"}, true
	}
	m.speciesConstructor(this.P)
	var thenFinally, catchFinally Val
	if !isCallable(onFinally) {
		thenFinally, catchFinally = onFinally, onFinally
	} else {
		thenFinally = fval(&Fn{Name: "thenFinally:" + onFinally.F.Name, Call: func(_ Val, args []Val) (Val, bool) {
			value := arg(args, 0)
			result, thrown := m.call(onFinally.F, undef)
			if thrown {
				return result, true
			}
			p, thrown := m.promiseResolve(result)
			if thrown {
				return p, true
			}
			valueThunk := &Fn{Name: "valueThunk", Call: func(Val, []Val) (Val, bool) { return value, false }}
			return m.invokeThen(p, fval(valueThunk))
		}})
		catchFinally = fval(&Fn{Name: "catchFinally:" + onFinally.F.Name, Call: func(_ Val, args []Val) (Val, bool) {
			reason := arg(args, 0)
			result, thrown := m.call(onFinally.F, undef)
			if thrown {
				return result, true
			}
			p, thrown := m.promiseResolve(result)
			if thrown {
				return p, true
			}
			thrower := &Fn{Name: "thrower", Call: func(Val, []Val) (Val, bool) { return reason, true }}
			return m.invokeThen(p, fval(thrower))
		}})
	}
	return m.invokeThen(this, thenFinally, catchFinally)
}

// 27.2.4.1 Promise.all, 27.2.4.2 allSettled, 27.2.4.3 any, 27.2.4.5 race over an array literal.
// GetPromiseResolve(C) yields the built-in Promise.resolve; array iteration is unobservable.
func (m *M) combinator(kind OpKind, items []Val) Val {
	cap := m.newPromiseCapability()
	var values []Val
	remaining := 1
	finish := func() {
		switch kind {
		case OpAll, OpAllSettled:
			m.call(cap.resolve, undef, Val{K: KArray, L: append([]Val(nil), values...)})
		case OpAny:
			m.call(cap.reject, undef, Val{K: KError, S: "AggregateError", L: append([]Val(nil), values...)})
		}
	}
	abrupt := func(v Val) { m.call(cap.reject, undef, v) } // IfAbruptRejectPromise
	for _, next := range items {
		index := len(values)
		if kind != OpRace {
			values = append(values, undef)
		}
		nextPromise, thrown := m.promiseResolve(next) // Call(promiseResolve, C, « next »)
		if thrown {
			abrupt(nextPromise)
			return pval(cap.promise)
		}
		var onF, onR Val
		switch kind {
		case OpAll:
			alreadyCalled := false
			onF = fval(&Fn{Name: "allResolveElement", Call: func(_ Val, args []Val) (Val, bool) {
				if alreadyCalled {
					return undef, false
				}
				alreadyCalled = true
				values[index] = arg(args, 0)
				remaining--
				if remaining == 0 {
					finish()
				}
				return undef, false
			}})
			onR = fval(cap.reject)
			remaining++
		case OpAllSettled:
			alreadyCalled := false
			mk := func(status string) Val {
				return fval(&Fn{Name: "allSettled:" + status, Call: func(_ Val, args []Val) (Val, bool) {
					if alreadyCalled {
						return undef, false
					}
					alreadyCalled = true
					values[index] = Val{K: KSettled, S: status, L: []Val{arg(args, 0)}}
					remaining--
					if remaining == 0 {
						finish()
					}
					return undef, false
				}})
			}
			onF, onR = mk("fulfilled"), mk("rejected")
			remaining++
		case OpAny:
			alreadyCalled := false
			onF = fval(cap.resolve)
			onR = fval(&Fn{Name: "anyRejectElement", Call: func(_ Val, args []Val) (Val, bool) {
				if alreadyCalled {
					return undef, false
				}
				alreadyCalled = true
				values[index] = arg(args, 0)
				remaining--
				if remaining == 0 {
					finish()
				}
				return undef, false
			}})
			remaining++
		case OpRace:
			onF, onR = fval(cap.resolve), fval(cap.reject)
		}
		if r, thrown := m.invokeThen(nextPromise, onF, onR); thrown {
			abrupt(r)
			return pval(cap.promise)
		}
	}
	if kind != OpRace {
		remaining--
		if remaining == 0 {
			finish()
		}
	}
	return pval(cap.promise)
}

// 27.7.5.1 AsyncFunctionStart + 27.7.5.3 Await for the body  log; (v = await E; log(v))*; return/throw.
func (m *M) asyncCall(a *Async) Val {
	cap := m.newPromiseCapability()
	var step func(i int, v Val)
	step = func(i int, v Val) {
		if i == 0 {
			m.log(a.Tag + ".0")
		} else {
			m.logV(a.Tag+"."+strconv.Itoa(i), v)
		}
		if i < len(a.Awaits) {
			value := m.eval(a.Awaits[i], -1)
			promise, thrown := m.promiseResolve(value)
			if thrown {
				m.call(cap.reject, undef, promise)
				return
			}
			onF := &Fn{Name: "await+" + a.Tag, Call: func(_ Val, args []Val) (Val, bool) {
				step(i+1, arg(args, 0))
				return undef, false
			}}
			onR := &Fn{Name: "await-" + a.Tag, Call: func(_ Val, args []Val) (Val, bool) {
				// the await expression throws; the body has no try/catch
				m.call(cap.reject, undef, arg(args, 0))
				return undef, false
			}}
			m.performPromiseThen(promise.P, fval(onF), fval(onR), nil)
			return
		}
		switch a.End {
		case EndReturn:
			m.call(cap.resolve, undef, m.eval(a.V, -1))
		case EndThrow:
			m.call(cap.reject, undef, m.eval(a.V, -1))
		default:
			m.call(cap.resolve, undef, undef)
		}
	}
	m.enter("async-start")
	step(0, undef)
	m.exit()
	return pval(cap.promise)
}

// ---- the instrumented user code ----

func (m *M) eval(e Expr, _ int) Val {
	switch e.K {
	case VConst:
		return Val{K: KNum, N: e.N}
	case VPVar:
		if e.N < m.nvars {
			return m.vars[e.N]
		}
		return undef
	case VObj:
		return Val{K: KObject, O: e.O}
	}
	return undef
}

func (m *M) callee(c Callee, args []Val) *Fn {
	switch c.K {
	case CalleeArg:
		i := 0
		if c.Rej {
			i = 1
		}
		if a := arg(args, i); a.K == KFn {
			return a.F
		}
		return nil
	case CalleeSlot:
		if c.Rej {
			return m.slotsJ[c.Slot]
		}
		return m.slotsR[c.Slot]
	}
	if c.Rej {
		return m.goRej[c.Slot]
	}
	return m.goRes[c.Slot]
}

func (m *M) closure(f *Func, _ int) *Fn {
	return &Fn{Name: f.Tag, Call: func(this Val, args []Val) (Val, bool) {
		if f.LogArg {
			m.logV(f.Tag, arg(args, 0))
		} else {
			m.log(f.Tag)
		}
		if f.Save > 0 {
			if a := arg(args, 0); a.K == KFn {
				m.slotsR[f.Save-1] = a.F
			} else {
				delete(m.slotsR, f.Save-1)
			}
			if a := arg(args, 1); a.K == KFn {
				m.slotsJ[f.Save-1] = a.F
			} else {
				delete(m.slotsJ, f.Save-1)
			}
		}
		for _, c := range f.Body {
			if fn := m.callee(c.C, args); fn != nil {
				m.call(fn, undef, m.eval(c.V, -1)) // resolving functions never throw
			}
		}
		switch f.End {
		case EndReturn:
			return m.eval(f.V, -1), false
		case EndThrow:
			return m.eval(f.V, -1), true
		}
		return undef, false
	}}
}

func (m *M) handler(h *Handler) Val {
	if h == nil {
		return undef
	}
	switch h.K {
	case HNonCallable:
		return Val{K: KNum, N: 7}
	case HFunc:
		return fval(m.closure(h.F, -1))
	case HNative:
		return fval(&Fn{Name: h.Tag, Call: func(_ Val, args []Val) (Val, bool) {
			m.logGo(h.Tag, arg(args, 0))
			if fn := m.callee(h.C, nil); fn != nil {
				m.call(fn, undef, m.eval(h.V, -1))
			}
			return undef, false
		}})
	}
	return undef
}

// ---- driver ----

func New(p *Program) *M {
	m := &M{prog: p, vars: make([]Val, p.NumVars()), slotsR: map[int]*Fn{}, slotsJ: map[int]*Fn{}, goRes: map[int]*Fn{}, goRej: map[int]*Fn{}}
	m.tapVar = map[int]*Promise{}
	m.thenFn = &Fn{Name: "then", Call: func(this Val, args []Val) (Val, bool) { return m.promiseThen(this, args) }}
	return m
}

func (m *M) define(v Val) {
	m.vars[m.nvars] = v
	m.nvars++
}

func (m *M) execOp(o *Op) {
	switch o.K {
	case OpNew:
		// 27.2.3.1 Promise(executor)
		p := m.newPromise()
		res, rej := m.createResolvingFunctions(p)
		r, thrown := m.call(m.closure(o.F, -1), undef, fval(res), fval(rej))
		if thrown {
			m.call(rej, undef, r)
		}
		m.define(pval(p))
	case OpThen:
		r, _ := m.invokeThenTop(m.vars[o.P], m.handler(o.H1), m.handler(o.H2))
		m.define(r)
	case OpCatch:
		// 27.2.5.1: Invoke(promise, "then", « undefined, onRejected »)
		r, _ := m.invokeThen(m.vars[o.P], undef, m.handler(o.H1))
		m.define(r)
	case OpFinally:
		r, _ := m.promiseFinally(m.vars[o.P], m.handler(o.H1))
		m.define(r)
	case OpResolve:
		r, _ := m.promiseResolve(m.eval(o.V, -1))
		m.define(r)
	case OpReject:
		cap := m.newPromiseCapability()
		m.call(cap.reject, undef, m.eval(o.V, -1))
		m.define(pval(cap.promise))
	case OpAll, OpAllSettled, OpRace, OpAny:
		items := make([]Val, len(o.Items))
		for i, e := range o.Items {
			items[i] = m.eval(e, -1)
		}
		m.define(m.combinator(o.K, items))
	case OpAsync:
		m.define(m.asyncCall(o.A))
	case OpGoNew:
		p := m.newPromise()
		res, rej := m.createResolvingFunctions(p)
		m.goRes[m.nvars], m.goRej[m.nvars] = res, rej
		m.define(pval(p))
	case OpCall:
		if fn := m.callee(o.C, nil); fn != nil {
			m.call(fn, undef, m.eval(o.V, -1))
		}
	case OpTap:
		p := m.vars[o.P].P
		if p == nil || p.Tapped {
			panic("promisemodel: invalid program: tap of a non-promise or of an already tapped promise")
		}
		p.Tapped = true
		m.tapVar[o.P] = p
	}
}

// p.then(...) written in the script: an ordinary property lookup followed by a call.
func (m *M) invokeThenTop(v Val, a, b Val) (Val, bool) { return m.invokeThen(v, a, b) }

// drain runs the job queue to exhaustion in FIFO order (the host returns to Go only with an empty queue).
func (m *M) drain() {
	for len(m.queue) > 0 {
		j := m.queue[0]
		m.queue = m.queue[1:]
		m.enter("job")
		j.run()
		m.exit()
		m.transition()
	}
}

func (m *M) observe() {
	st := make([]pstate, m.nvars)
	for i := 0; i < m.nvars; i++ {
		if p := m.vars[i].P; p != nil {
			st[i] = pstate{p.State, p.Result}
		}
	}
	m.entries = append(m.entries, entry{seg: true, states: st})
}

// Run executes the whole program. It returns false if execution was stopped by StopAtJSLog (interrupt variant);
// then the transcript ends with the interrupting log entry, the job queue is discarded and no segment line
// is appended for the interrupted segment.
func (m *M) Run() (completed bool) {
	defer func() {
		if x := recover(); x != nil {
			if _, ok := x.(stopSignal); ok {
				m.queue = nil
				completed = false
				return
			}
			panic(x)
		}
	}()
	ops := m.prog.Ops
	open := false // a script segment is in progress
	for i := range ops {
		o := &ops[i]
		switch o.K {
		case OpBreak:
			if open {
				m.drain()
				m.observe()
				open = false
			}
		case OpGoSettle:
			if open {
				m.drain()
				m.observe()
				open = false
			}
			m.enter("go-settle")
			if fn := m.callee(o.C, nil); fn != nil {
				m.call(fn, undef, m.eval(o.V, -1))
			}
			m.exit()
			m.transition()
			m.drain()
			m.observe()
		default:
			open = true
			m.enter("script")
			m.execOp(o)
			m.exit()
			m.transition()
		}
	}
	if open {
		m.drain()
		m.observe()
	}
	return true
}

// JobsPending is the length of the model's job queue (0 at every return to Go).
func (m *M) JobsPending() int { return len(m.queue) }

func (m *M) String() string { return fmt.Sprint(m.Transcript()) }
