package tamodel

import (
	"math"
	"math/big"
	"sort"
	"strings"
)

// Cb describes a callback function passed to an iteration method. The same description is turned into a
// real JavaScript function by the harness.
type Cb struct {
	Ret   string // "true" | "false" | "odd" (index odd) | "x" (the element) | "inc" (element+1) | "eff" (object coerced with RetFx to 1) | "sum" (reduce: acc+x) | "undef"
	At    int    // invocation number (0-based) at which Fx runs; -1 never
	Fx    string
	RetFx string
	n     int
}

// Cmp describes a sort comparator (nil: undefined).
type Cmp struct {
	Ret string // "rev" (descending) | "mod4" (by value mod 4) | "zero" | "nan" | "neg0" | "notfn" (a non-callable)
	At  int
	Fx  string
	n   int
}

func arg(args []V, i int) V {
	if i < len(args) {
		return args[i]
	}
	return U()
}

func isOne(k Kind) V {
	if k.IsBig() {
		return Bg(big.NewInt(1))
	}
	return N(1)
}

func (w *World) callCb(cb *Cb, k Kind, args ...V) V {
	n := cb.n
	cb.n++
	if n == cb.At {
		w.Fx(cb.Fx)
	}
	w.CbLog = append(w.CbLog, args...)
	switch cb.Ret {
	case "true":
		return Bv(true)
	case "false":
		return Bv(false)
	case "undef":
		return U()
	case "odd":
		i := args[len(args)-1]
		return Bv(int(i.N)%2 == 1)
	case "x":
		return args[0]
	case "inc":
		x := args[0]
		switch x.T {
		case Num:
			return N(x.N + 1)
		case Big:
			return Bg(new(big.Int).Add(x.B, big.NewInt(1)))
		case Undef:
			if k.IsBig() {
				throw("TypeError") // undefined + 1n
			}
			return N(math.NaN())
		}
	case "eff":
		return Eff(cb.RetFx, isOne(k))
	case "sum":
		acc, x := args[0], args[1]
		switch {
		case acc.T == Num && x.T == Num:
			return N(acc.N + x.N)
		case acc.T == Big && x.T == Big:
			return Bg(new(big.Int).Add(acc.B, x.B))
		case acc.T == Num && x.T == Undef:
			return N(math.NaN())
		default:
			throw("TypeError") // mixing BigInt and other types
		}
	}
	panic("tamodel: callback " + cb.Ret)
}

// Call executes %TypedArray%.prototype[method] on a.
func (w *World) Call(a *View, method string, args []V, cb *Cb, cmp *Cmp, src *View) V {
	switch method {
	case "length":
		if a.Buf.Detached {
			return N(0)
		}
		return N(float64(a.Len))
	case "byteLength":
		if a.Buf.Detached {
			return N(0)
		}
		return N(float64(a.Len * a.Kind.Size()))
	case "byteOffset":
		if a.Buf.Detached {
			return N(0)
		}
		return N(float64(a.Off))
	case "at":
		a.validate()
		rel := w.ToIntegerOrInfinity(arg(args, 0))
		k := rel
		if rel < 0 {
			k = float64(a.Len) + rel
		}
		if k < 0 || k >= float64(a.Len) {
			return U()
		}
		return w.getElem(a, int(k))
	case "copyWithin":
		return w.copyWithin(a, args)
	case "every", "some", "find", "findIndex", "findLast", "findLastIndex", "forEach":
		return w.iterate(a, method, cb)
	case "fill":
		return w.fill(a, args)
	case "filter":
		return w.filter(a, cb)
	case "includes", "indexOf", "lastIndexOf":
		return w.search(a, method, args)
	case "toLocaleString":
		// 23.2.3.31: ValidateTypedArray, then each element's toLocaleString (host-defined text): only the completion
		// and the absence of side effects are modelled.
		a.validate()
		return V{T: Other, S: "<locale string>"}
	case "join", "toString":
		a.validate()
		sep := ","
		if s := arg(args, 0); s.T != Undef {
			sep = w.ToString(s)
		}
		var sb strings.Builder
		for k := 0; k < a.Len; k++ {
			if k > 0 {
				sb.WriteString(sep)
			}
			if e := w.getElem(a, k); e.T != Undef {
				sb.WriteString(w.ToString(e))
			}
		}
		return S(sb.String())
	case "map":
		return w.mapM(a, cb)
	case "reduce", "reduceRight":
		return w.reduce(a, method == "reduceRight", args, cb)
	case "reverse":
		a.validate()
		for lo, hi := 0, a.Len-1; lo < hi; lo, hi = lo+1, hi-1 {
			l, h := w.rawAt(a, lo), w.rawAt(a, hi)
			w.putRawElem(a, lo, h)
			w.putRawElem(a, hi, l)
		}
		return V{T: This}
	case "set":
		return w.set(a, args, src)
	case "slice":
		return w.slice(a, args)
	case "sort":
		return w.sortM(a, cmp)
	case "subarray":
		return w.subarray(a, args)
	case "toReversed":
		a.validate()
		n := a.Len
		res := w.create(a, nil, a.Kind, []V{N(float64(n))})
		for k := 0; k < n; k++ {
			w.putRawElem(res, k, w.rawAt(a, n-1-k))
		}
		return V{T: TArr, A: res}
	case "toSorted":
		return w.toSorted(a, cmp)
	case "with":
		return w.with(a, args)
	case "keys", "values", "entries":
		return w.iter(a, method, cb)
	}
	panic("tamodel: unknown method " + method)
}

// copyWithin: 23.2.3.6.
func (w *World) copyWithin(a *View, args []V) V {
	a.validate()
	n := a.Len
	to := relIndex(w.ToIntegerOrInfinity(arg(args, 0)), n)
	from := relIndex(w.ToIntegerOrInfinity(arg(args, 1)), n)
	final := n
	if e := arg(args, 2); e.T != Undef {
		final = relIndex(w.ToIntegerOrInfinity(e), n)
	}
	count := final - from
	if n-to < count {
		count = n - to
	}
	if count > 0 {
		if a.Buf.Detached {
			throw("TypeError")
		}
		sz := a.Kind.Size()
		d := a.Buf.Data
		toB, fromB, cnt := a.Off+to*sz, a.Off+from*sz, count*sz
		if fromB < toB && toB < fromB+cnt {
			for i := cnt - 1; i >= 0; i-- {
				d[toB+i] = d[fromB+i]
			}
		} else {
			for i := 0; i < cnt; i++ {
				d[toB+i] = d[fromB+i]
			}
		}
	}
	return V{T: This}
}

// iterate: every/some/find*/forEach (23.2.3.8 ...).
func (w *World) iterate(a *View, method string, cb *Cb) V {
	a.validate()
	n := a.Len
	if cb == nil {
		throw("TypeError")
	}
	backwards := method == "findLast" || method == "findLastIndex"
	for j := 0; j < n; j++ {
		k := j
		if backwards {
			k = n - 1 - j
		}
		kv := w.getElem(a, k)
		r := ToBoolean(w.callCb(cb, a.Kind, kv, N(float64(k))))
		switch method {
		case "every":
			if !r {
				return Bv(false)
			}
		case "some":
			if r {
				return Bv(true)
			}
		case "find", "findLast":
			if r {
				return kv
			}
		case "findIndex", "findLastIndex":
			if r {
				return N(float64(k))
			}
		}
	}
	switch method {
	case "every":
		return Bv(true)
	case "some":
		return Bv(false)
	case "findIndex", "findLastIndex":
		return N(-1)
	}
	return U()
}

// fill: 23.2.3.9 (value is converted BEFORE start and end).
func (w *World) fill(a *View, args []V) V {
	a.validate()
	n := a.Len
	raw := w.ToRaw(a.Kind, arg(args, 0))
	k := relIndex(w.ToIntegerOrInfinity(arg(args, 1)), n)
	final := n
	if e := arg(args, 2); e.T != Undef {
		final = relIndex(w.ToIntegerOrInfinity(e), n)
	}
	if a.Buf.Detached {
		throw("TypeError")
	}
	for ; k < final; k++ {
		w.putRawElem(a, k, raw)
	}
	return V{T: This}
}

// filter: 23.2.3.10.
func (w *World) filter(a *View, cb *Cb) V {
	a.validate()
	n := a.Len
	if cb == nil {
		throw("TypeError")
	}
	var kept []V
	for k := 0; k < n; k++ {
		kv := w.getElem(a, k)
		if ToBoolean(w.callCb(cb, a.Kind, kv, N(float64(k)))) {
			kept = append(kept, kv)
		}
	}
	res := w.speciesCreate(a, []V{N(float64(len(kept)))})
	for i, e := range kept {
		w.setElem(res, float64(i), e)
	}
	return V{T: TArr, A: res}
}

func sameValueZero(x, y V) bool {
	if x.T != y.T {
		return false
	}
	switch x.T {
	case Undef, Null:
		return true
	case Num:
		return x.N == y.N || (math.IsNaN(x.N) && math.IsNaN(y.N))
	case Big:
		return x.B.Cmp(y.B) == 0
	case Str:
		return x.S == y.S
	case Bool:
		return x.Bo == y.Bo
	}
	return false
}

func strictEquals(x, y V) bool {
	if x.T == Num && y.T == Num {
		return x.N == y.N
	}
	return sameValueZero(x, y)
}

// search: includes (23.2.3.14), indexOf (23.2.3.15), lastIndexOf (23.2.3.18). The search element is never coerced.
func (w *World) search(a *View, method string, args []V) V {
	a.validate()
	n := a.Len
	miss := N(-1)
	if method == "includes" {
		miss = Bv(false)
	}
	if n == 0 {
		return miss
	}
	se := arg(args, 0)
	if method == "lastIndexOf" {
		k := float64(n - 1)
		if len(args) > 1 {
			f := w.ToIntegerOrInfinity(args[1])
			if math.IsInf(f, -1) {
				return miss
			}
			if f >= 0 {
				k = math.Min(f, float64(n-1))
			} else {
				k = float64(n) + f
			}
		}
		for ; k >= 0; k-- {
			if a.validIndex(k) && strictEquals(w.getElem(a, int(k)), se) {
				return N(k)
			}
		}
		return miss
	}
	f := w.ToIntegerOrInfinity(arg(args, 1))
	if math.IsInf(f, 1) {
		return miss
	}
	var k float64
	if math.IsInf(f, -1) {
		k = 0
	} else if f >= 0 {
		k = f
	} else {
		k = math.Max(float64(n)+f, 0)
	}
	for ; k < float64(n); k++ {
		if method == "includes" {
			if sameValueZero(w.getElem(a, int(k)), se) {
				return Bv(true)
			}
		} else if a.validIndex(k) && strictEquals(w.getElem(a, int(k)), se) {
			return N(k)
		}
	}
	return miss
}

// mapM: 23.2.3.22.
func (w *World) mapM(a *View, cb *Cb) V {
	a.validate()
	n := a.Len
	if cb == nil {
		throw("TypeError")
	}
	res := w.speciesCreate(a, []V{N(float64(n))})
	for k := 0; k < n; k++ {
		kv := w.getElem(a, k)
		mapped := w.callCb(cb, a.Kind, kv, N(float64(k)))
		w.setElem(res, float64(k), mapped)
	}
	return V{T: TArr, A: res}
}

// reduce / reduceRight: 23.2.3.23-24.
func (w *World) reduce(a *View, right bool, args []V, cb *Cb) V {
	a.validate()
	n := a.Len
	if cb == nil {
		throw("TypeError")
	}
	j := 0
	var acc V
	if len(args) >= 1 {
		acc = args[0]
	} else {
		if n == 0 {
			throw("TypeError")
		}
		if right {
			acc = w.getElem(a, n-1)
		} else {
			acc = w.getElem(a, 0)
		}
		j = 1
	}
	for ; j < n; j++ {
		k := j
		if right {
			k = n - 1 - j
		}
		acc = w.callCb(cb, a.Kind, acc, w.getElem(a, k), N(float64(k)))
	}
	return acc
}

// set: 23.2.3.26. src != nil: the source is that typed array; otherwise args[0] is a List (array-like of
// values, each possibly effectful) .
func (w *World) set(a *View, args []V, src *View) V {
	off := w.ToIntegerOrInfinity(arg(args, 1))
	if off < 0 {
		throw("RangeError")
	}
	if a.Buf.Detached {
		throw("TypeError")
	}
	tlen := a.Len
	if src != nil {
		if src.Buf.Detached {
			throw("TypeError")
		}
		if math.IsInf(off, 1) || float64(src.Len)+off > float64(tlen) {
			throw("RangeError")
		}
		if a.Kind.IsBig() != src.Kind.IsBig() {
			throw("TypeError")
		}
		o := int(off)
		ss, ts := src.Kind.Size(), a.Kind.Size()
		// clone the source bytes when both share one buffer
		sb := src.Buf.Data[src.Off : src.Off+src.Len*ss]
		if src.Buf == a.Buf {
			sb = append([]byte(nil), sb...)
		}
		if src.Kind == a.Kind {
			copy(a.Buf.Data[a.Off+o*ts:], sb)
			return U()
		}
		for i := 0; i < src.Len; i++ {
			v := ValueOfRaw(src.Kind, GetRaw(sb[i*ss:(i+1)*ss], ss, LittleEndian))
			var raw uint64
			if a.Kind.IsBig() {
				raw = RawOfBigInt(v.B)
			} else {
				raw = RawOfNumber(a.Kind, v.N)
			}
			w.putRawElem(a, o+i, raw)
		}
		return U()
	}
	list := arg(args, 0)
	if list.T != List {
		panic("tamodel: set needs a typed array or list source")
	}
	srcLen := len(list.L)
	if math.IsInf(off, 1) || float64(srcLen)+off > float64(tlen) {
		throw("RangeError")
	}
	for i, e := range list.L {
		w.setElem(a, off+float64(i), e)
	}
	return U()
}

// slice: 23.2.3.27.
func (w *World) slice(a *View, args []V) V {
	a.validate()
	n := a.Len
	k := relIndex(w.ToIntegerOrInfinity(arg(args, 0)), n)
	final := n
	if e := arg(args, 1); e.T != Undef {
		final = relIndex(w.ToIntegerOrInfinity(e), n)
	}
	count := final - k
	if count < 0 {
		count = 0
	}
	res := w.speciesCreate(a, []V{N(float64(count))})
	if count > 0 {
		if a.Buf.Detached {
			throw("TypeError")
		}
		if res.Kind == a.Kind {
			sz := a.Kind.Size()
			sp, tp := a.Off+k*sz, res.Off
			limit := tp + count*sz
			for tp < limit { // byte-wise, ascending (observable when both views share a buffer)
				res.Buf.Data[tp] = a.Buf.Data[sp]
				sp++
				tp++
			}
		} else {
			for i := 0; k < final; k, i = k+1, i+1 {
				w.setElem(res, float64(i), w.getElem(a, k))
			}
		}
	}
	return V{T: TArr, A: res}
}

func (w *World) numericLess(x, y V) float64 {
	if x.T == Big {
		return float64(x.B.Cmp(y.B))
	}
	a, b := x.N, y.N
	switch {
	case math.IsNaN(a) && math.IsNaN(b):
		return 0
	case math.IsNaN(a):
		return 1
	case math.IsNaN(b):
		return -1
	case a < b:
		return -1
	case a > b:
		return 1
	case a == 0 && b == 0:
		if math.Signbit(a) && !math.Signbit(b) {
			return -1
		}
		if !math.Signbit(a) && math.Signbit(b) {
			return 1
		}
	}
	return 0
}

func mod4(v V) float64 {
	if v.T == Big {
		return float64(new(big.Int).Rem(v.B, big.NewInt(4)).Int64())
	}
	return math.Mod(v.N, 4)
}

// compare is SortCompare for typed arrays (23.2.4.7 TypedArray SortCompare).
func (w *World) compare(cmp *Cmp, x, y V) float64 {
	if cmp == nil {
		return w.numericLess(x, y)
	}
	n := cmp.n
	cmp.n++
	if n == cmp.At {
		w.Fx(cmp.Fx)
	}
	var v float64
	switch cmp.Ret {
	case "rev":
		v = -w.numericLess(x, y)
	case "mod4":
		v = mod4(x) - mod4(y)
	case "zero":
		v = 0
	case "nan":
		v = math.NaN()
	case "neg0":
		v = math.Copysign(0, -1)
	default:
		panic("tamodel: comparator " + cmp.Ret)
	}
	if math.IsNaN(v) {
		return 0
	}
	return v
}

type sortItem struct {
	v   V
	raw uint64
}

func (w *World) sortedItems(a *View, cmp *Cmp) []sortItem {
	items := make([]sortItem, a.Len)
	for i := range items {
		items[i] = sortItem{w.getElem(a, i), w.rawAt(a, i)}
	}
	// a stable sort; with a consistent comparator the result is unique
	sort.SliceStable(items, func(i, j int) bool { return w.compare(cmp, items[i].v, items[j].v) < 0 })
	return items
}

// sortM: 23.2.3.29. The values are read first, sorted, and written back only afterwards; nothing is written
// if the comparator throws, and nothing after the buffer was detached.
func (w *World) sortM(a *View, cmp *Cmp) V {
	if cmp != nil && cmp.Ret == "notfn" {
		throw("TypeError")
	}
	a.validate()
	items := w.sortedItems(a, cmp)
	for i, it := range items {
		if a.validIndex(float64(i)) {
			w.putRawElem(a, i, it.raw)
		}
	}
	return V{T: This}
}

// toSorted: 23.2.3.33.
func (w *World) toSorted(a *View, cmp *Cmp) V {
	if cmp != nil && cmp.Ret == "notfn" {
		throw("TypeError")
	}
	a.validate()
	n := a.Len
	res := w.create(a, nil, a.Kind, []V{N(float64(n))})
	items := w.sortedItems(a, cmp)
	for i, it := range items {
		w.putRawElem(res, i, it.raw)
	}
	return V{T: TArr, A: res}
}

// subarray: 23.2.3.30 (no detach check of its own: the species constructor performs it).
func (w *World) subarray(a *View, args []V) V {
	n := a.Len
	begin := relIndex(w.ToIntegerOrInfinity(arg(args, 0)), n)
	end := n
	if e := arg(args, 1); e.T != Undef {
		end = relIndex(w.ToIntegerOrInfinity(e), n)
	}
	newLen := end - begin
	if newLen < 0 {
		newLen = 0
	}
	byteOff := a.Off + begin*a.Kind.Size()
	res := w.speciesCreate(a, []V{{T: ABuf, Bf: a.Buf}, N(float64(byteOff)), N(float64(newLen))})
	return V{T: TArr, A: res}
}

// with: 23.2.3.36.
func (w *World) with(a *View, args []V) V {
	a.validate()
	n := a.Len
	rel := w.ToIntegerOrInfinity(arg(args, 0))
	idx := rel
	if rel < 0 {
		idx = float64(n) + rel
	}
	raw := w.ToRaw(a.Kind, arg(args, 1))
	if !a.validIndex(idx) {
		throw("RangeError")
	}
	res := w.create(a, nil, a.Kind, []V{N(float64(n))})
	for k := 0; k < n; k++ {
		if k == int(idx) {
			w.putRawElem(res, k, raw)
		} else {
			w.putRawElem(res, k, w.rawAt(a, k))
		}
	}
	return V{T: TArr, A: res}
}

// iter models creating an array iterator of the given kind and draining it with next(); cb (if any) runs an
// effect before the cb.At-th call of next(). The result is the list of produced values.
// %ArrayIteratorPrototype%.next (23.1.5.1): a detached typed array makes next() throw a TypeError.
func (w *World) iter(a *View, method string, cb *Cb) V {
	a.validate()
	var out []V
	for i := 0; ; i++ {
		if cb != nil && i == cb.At {
			w.Fx(cb.Fx)
		}
		if a.Buf.Detached {
			throw("TypeError")
		}
		if i >= a.Len {
			break
		}
		switch method {
		case "keys":
			out = append(out, N(float64(i)))
		case "values":
			out = append(out, w.getElem(a, i))
		default:
			out = append(out, V{T: List, L: []V{N(float64(i)), w.getElem(a, i)}})
		}
	}
	return V{T: List, L: out}
}

// Of is %TypedArray%.of called on a constructor described by sp (23.2.2.2).
func (w *World) Of(sp *Species, def Kind, items []V) V {
	res := w.create(nil, sp, def, []V{N(float64(len(items)))})
	for k, v := range items {
		w.setElem(res, float64(k), v)
	}
	return V{T: TArr, A: res}
}

// From is %TypedArray%.from(list) called on a constructor described by sp (23.2.2.1), for an iterable/array-like
// whose elements are plain values; cb is the optional map function.
func (w *World) From(sp *Species, def Kind, items []V, cb *Cb) V {
	res := w.create(nil, sp, def, []V{N(float64(len(items)))})
	for k, v := range items {
		if cb != nil {
			v = w.callCb(cb, res.Kind, v, N(float64(k)))
		}
		w.setElem(res, float64(k), v)
	}
	return V{T: TArr, A: res}
}
