// Package tamodel is a small executable model of ECMAScript ArrayBuffer / TypedArray / DataView
// semantics over plain Go byte slices (ECMA-262 2023, fixed-length non-shared buffers only, which is
// what goja implements). It imports nothing from goja. It is the reference side of check C17: every
// operation of the check's alphabet is executed on this model and on the real engine in lock-step.
//
// Abrupt completions are Go panics carrying *Throw; Run converts them back into values.
package tamodel

import (
	"fmt"
	"math"
	"math/big"
	"strconv"
	"strings"
)

// T is the type tag of a model value.
type T int

const (
	Undef T = iota
	Null
	Bool
	Num
	Big
	Str
	EffObj // an object whose ToPrimitive runs an effect and then yields a primitive
	This   // the receiver itself (methods returning the this value)
	TArr   // a typed array (result of slice/map/subarray/...)
	ABuf   // an ArrayBuffer
	List   // array / list of values
	Other  // any other object (only identity-free, rendered by its S)
)

// V is a model value.
type V struct {
	T  T
	N  float64
	B  *big.Int
	S  string
	Bo bool
	O  *EObj
	A  *View
	Bf *Buffer
	L  []V
}

// EObj is an object with a [Symbol.toPrimitive] that runs effect Fx and returns Prim.
type EObj struct {
	Fx   string
	Prim V
}

// Throw is an abrupt completion. Class is the error constructor name, or "Boom" for the sentinel
// thrown by effect "T".
type Throw struct{ Class string }

func (t *Throw) Error() string { return t.Class }

func throw(class string) { panic(&Throw{class}) }

func U() V            { return V{T: Undef} }
func N(f float64) V   { return V{T: Num, N: f} }
func S(s string) V    { return V{T: Str, S: s} }
func Bv(b bool) V     { return V{T: Bool, Bo: b} }
func Bg(b *big.Int) V { return V{T: Big, B: b} }
func Eff(fx string, prim V) V {
	return V{T: EffObj, O: &EObj{Fx: fx, Prim: prim}}
}

// World is the mutable state the model operates on: up to two harness buffers and the effect log.
type World struct {
	B      [2]*Buffer
	FxLog  []string // effects executed, in order
	CbLog  []V      // arguments seen by logging callbacks
	NumFmt func(float64) string
	// WritePos/WriteVal: effect "W" stores WriteVal at byte WritePos of B[0] (a host write through the shared slice).
	WritePos int
	WriteVal byte
	// NaNs lists the NaN stores of the operations executed so far (see NaNWrite).
	NaNs []NaNWrite
}

// Fx executes one effect.
func (w *World) Fx(code string) {
	if code == "" {
		return
	}
	w.FxLog = append(w.FxLog, code)
	switch code {
	case "D1":
		w.B[0].Detach()
	case "D2":
		if w.B[1] != nil {
			w.B[1].Detach()
		}
	case "T":
		throw("Boom")
	case "W":
		if b := w.B[0]; !b.Detached && w.WritePos < len(b.Data) {
			b.Data[w.WritePos] = w.WriteVal
		}
	case "N": // no effect, logged only (coercion order witness)
	default:
		panic("tamodel: unknown effect " + code)
	}
}

// ---- conversions ----

func (w *World) toPrimitive(v V) V {
	if v.T == EffObj {
		w.Fx(v.O.Fx)
		return v.O.Prim
	}
	if v.T >= This {
		panic("tamodel: ToPrimitive of a model object is outside the alphabet")
	}
	return v
}

// StringToNumber implements StringToNumber for the literals used by the alphabet (decimal, Infinity, hex/octal/binary).
func StringToNumber(s string) float64 {
	s = strings.TrimFunc(s, isSpace)
	if s == "" {
		return 0
	}
	switch s {
	case "Infinity", "+Infinity":
		return math.Inf(1)
	case "-Infinity":
		return math.Inf(-1)
	}
	if len(s) > 2 && s[0] == '0' {
		base := 0
		switch s[1] {
		case 'x', 'X':
			base = 16
		case 'o', 'O':
			base = 8
		case 'b', 'B':
			base = 2
		}
		if base != 0 {
			n, ok := new(big.Int).SetString(s[2:], base)
			if !ok || strings.ContainsAny(s[2:], "+-_") {
				return math.NaN()
			}
			f, _ := new(big.Float).SetInt(n).Float64()
			return f
		}
	}
	for _, c := range s {
		if !(c >= '0' && c <= '9' || c == '.' || c == 'e' || c == 'E' || c == '+' || c == '-') {
			return math.NaN()
		}
	}
	f, err := strconv.ParseFloat(s, 64)
	if err != nil {
		if ne, ok := err.(*strconv.NumError); ok && ne.Err == strconv.ErrRange {
			return f
		}
		return math.NaN()
	}
	return f
}

func isSpace(r rune) bool {
	switch r {
	case ' ', '\t', '\n', '\r', '\v', '\f', 0xA0, 0xFEFF, 0x2028, 0x2029:
		return true
	}
	return false
}

// ToNumber (7.1.4).
func (w *World) ToNumber(v V) float64 {
	v = w.toPrimitive(v)
	switch v.T {
	case Undef:
		return math.NaN()
	case Null:
		return 0
	case Bool:
		if v.Bo {
			return 1
		}
		return 0
	case Num:
		return v.N
	case Str:
		return StringToNumber(v.S)
	case Big:
		throw("TypeError")
	}
	panic("tamodel: ToNumber")
}

// ToBigInt (7.1.13).
func (w *World) ToBigInt(v V) *big.Int {
	v = w.toPrimitive(v)
	switch v.T {
	case Undef, Null, Num:
		throw("TypeError")
	case Bool:
		if v.Bo {
			return big.NewInt(1)
		}
		return big.NewInt(0)
	case Big:
		return v.B
	case Str:
		s := strings.TrimFunc(v.S, isSpace)
		if s == "" {
			return big.NewInt(0)
		}
		base := 10
		body := s
		if len(s) > 2 && s[0] == '0' {
			switch s[1] {
			case 'x', 'X':
				base, body = 16, s[2:]
			case 'o', 'O':
				base, body = 8, s[2:]
			case 'b', 'B':
				base, body = 2, s[2:]
			}
		}
		if base != 10 && strings.ContainsAny(body, "+-") {
			throw("SyntaxError")
		}
		if strings.ContainsAny(body, "_.eE") && base == 10 {
			throw("SyntaxError")
		}
		n, ok := new(big.Int).SetString(body, base)
		if !ok {
			throw("SyntaxError")
		}
		return n
	}
	panic("tamodel: ToBigInt")
}

// ToIntegerOrInfinity (7.1.5).
func (w *World) ToIntegerOrInfinity(v V) float64 {
	f := w.ToNumber(v)
	if math.IsNaN(f) || f == 0 {
		return 0
	}
	if math.IsInf(f, 0) {
		return f
	}
	return math.Trunc(f)
}

// ToIndex (7.1.22).
func (w *World) ToIndex(v V) int64 {
	if v.T == Undef {
		return 0
	}
	f := w.ToIntegerOrInfinity(v)
	if f < 0 || f > 9007199254740991 {
		throw("RangeError")
	}
	return int64(f)
}

// ToBoolean (7.1.2).
func ToBoolean(v V) bool {
	switch v.T {
	case Undef, Null:
		return false
	case Bool:
		return v.Bo
	case Num:
		return !(v.N == 0 || math.IsNaN(v.N))
	case Big:
		return v.B.Sign() != 0
	case Str:
		return v.S != ""
	}
	return true
}

// ToString for the value classes that occur as elements or separators.
func (w *World) ToString(v V) string {
	v = w.toPrimitive(v)
	switch v.T {
	case Undef:
		return "undefined"
	case Null:
		return "null"
	case Bool:
		if v.Bo {
			return "true"
		}
		return "false"
	case Num:
		if w.NumFmt != nil {
			return w.NumFmt(v.N)
		}
		return FmtNum(v.N)
	case Big:
		return v.B.String()
	case Str:
		return v.S
	}
	panic("tamodel: ToString")
}

// relIndex clamps a relative index (ToIntegerOrInfinity result) into [0,len].
func relIndex(rel float64, length int) int {
	if rel < 0 {
		if math.IsInf(rel, -1) {
			return 0
		}
		r := float64(length) + rel
		if r < 0 {
			return 0
		}
		return int(r)
	}
	if rel > float64(length) {
		return length
	}
	return int(rel)
}

// FmtNum renders a Number canonically for comparisons (not Number::toString): shortest round-trip digits,
// "-0" and "NaN" distinguished.
func FmtNum(f float64) string {
	switch {
	case math.IsNaN(f):
		return "NaN"
	case f == 0 && math.Signbit(f):
		return "-0"
	}
	return strconv.FormatFloat(f, 'g', -1, 64)
}

// Render renders a value canonically; view identifies the receiver (for This) and bufName names buffers.
func (w *World) Render(v V) string {
	switch v.T {
	case Undef:
		return "undefined"
	case Null:
		return "null"
	case Bool:
		return strconv.FormatBool(v.Bo)
	case Num:
		return FmtNum(v.N)
	case Big:
		return v.B.String() + "n"
	case Str:
		return strconv.Quote(v.S)
	case This:
		return "this"
	case TArr:
		a := v.A
		return fmt.Sprintf("%s{buf=%s off=%d len=%d}", a.Kind.Name(), w.bufDesc(a.Buf), a.Off, a.Len)
	case ABuf:
		return "ArrayBuffer{" + w.bufDesc(v.Bf) + "}"
	case List:
		var sb strings.Builder
		sb.WriteByte('[')
		for i, e := range v.L {
			if i > 0 {
				sb.WriteByte(',')
			}
			sb.WriteString(w.Render(e))
		}
		sb.WriteByte(']')
		return sb.String()
	case Other:
		return v.S
	case EffObj:
		return "effobj"
	}
	return "?"
}

func (w *World) bufDesc(b *Buffer) string {
	switch {
	case b == w.B[0]:
		return "B1"
	case b == w.B[1]:
		return "B2"
	case b.Detached:
		return "fresh:detached"
	}
	return fmt.Sprintf("fresh:%x", b.Data)
}

// Run executes f and converts an abrupt completion into (zero, *Throw).
func Run(f func() V) (res V, t *Throw) {
	defer func() {
		if x := recover(); x != nil {
			if th, ok := x.(*Throw); ok {
				t = th
				return
			}
			panic(x)
		}
	}()
	return f(), nil
}
