package tamodel

import (
	"math"
	"strconv"
	"strings"
)

// Key is a property key used for element access: either a Number (converted with ToString, integers only in
// the alphabet) or a String.
type Key struct {
	IsNum bool
	N     float64
	S     string
}

// String is ToPropertyKey for the key classes of the alphabet.
func (k Key) String() string {
	if !k.IsNum {
		return k.S
	}
	return NumberToString(k.N)
}

// NumberToString is Number::toString (6.1.6.1.20) for radix 10.
func NumberToString(f float64) string {
	switch {
	case math.IsNaN(f):
		return "NaN"
	case f == 0:
		return "0"
	case math.IsInf(f, 1):
		return "Infinity"
	case f < 0:
		return "-" + NumberToString(-f)
	}
	e := strconv.FormatFloat(f, 'e', -1, 64) // d.ddddde±xx, shortest round-trip digits
	mant, expS, _ := strings.Cut(e, "e")
	exp, _ := strconv.Atoi(expS)
	digits := strings.Replace(mant, ".", "", 1)
	k, n := len(digits), exp+1
	switch {
	case k <= n && n <= 21:
		return digits + strings.Repeat("0", n-k)
	case 0 < n && n <= 21:
		return digits[:n] + "." + digits[n:]
	case -6 < n && n <= 0:
		return "0." + strings.Repeat("0", -n) + digits
	}
	x := n - 1
	sign := "+"
	if x < 0 {
		sign, x = "-", -x
	}
	if k == 1 {
		return digits + "e" + sign + strconv.Itoa(x)
	}
	return digits[:1] + "." + digits[1:] + "e" + sign + strconv.Itoa(x)
}

// canonicalNumericIndex is CanonicalNumericIndexString (7.1.21) for key strings that are decimal literals,
// "-0", "Infinity", "-Infinity" or "NaN". ok=false: an ordinary key.
func canonicalNumericIndex(s string) (float64, bool) {
	if s == "-0" {
		return math.Copysign(0, -1), true
	}
	f := StringToNumber(s)
	if NumberToString(f) != s {
		return 0, false
	}
	return f, true
}

// Elem executes one element-level operation on the integer-indexed exotic object a (10.4.5).
//
//	get   -> [[Get]]                    has -> [[HasProperty]]       delete -> [[Delete]] (boolean result)
//	set   -> [[Set]] (receiver = a)     gopd -> [[GetOwnProperty]] rendered as a list [value,w,e,c] or undefined
//	define-> [[DefineOwnProperty]] with descriptor {value: v} plus flags; result boolean (Reflect.defineProperty)
//	keys  -> [[OwnPropertyKeys]] (string keys)
func (w *World) Elem(a *View, op string, key Key, v V, desc string) V {
	if op == "keys" {
		out := []V{}
		if !a.Buf.Detached {
			for i := 0; i < a.Len; i++ {
				out = append(out, S(strconv.Itoa(i)))
			}
		}
		return V{T: List, L: out}
	}
	idx, numeric := canonicalNumericIndex(key.String())
	if !numeric {
		panic("tamodel: ordinary keys are outside the alphabet: " + key.String())
	}
	valid := a.validIndex(idx)
	switch op {
	case "get":
		if !valid {
			return U()
		}
		return w.getElem(a, int(idx))
	case "has":
		return Bv(valid)
	case "delete":
		return Bv(!valid)
	case "gopd":
		if !valid {
			return U()
		}
		return V{T: List, L: []V{w.getElem(a, int(idx)), Bv(true), Bv(true), Bv(true)}}
	case "set":
		w.setElem(a, idx, v)
		return U()
	case "define":
		// 10.4.5.3 [[DefineOwnProperty]]
		if !valid {
			return Bv(false)
		}
		switch desc {
		case "value": // {value: v}
		case "empty": // {}
			return Bv(true)
		case "full": // {value: v, writable: true, enumerable: true, configurable: true}
		case "nonconfigurable", "nonenumerable", "nonwritable", "accessor":
			return Bv(false)
		default:
			panic("tamodel: descriptor shape " + desc)
		}
		w.setElem(a, idx, v)
		return Bv(true)
	}
	panic("tamodel: element op " + op)
}

// ---- DataView (25.3) ----

// NewDataView is the DataView constructor (25.3.2.1). protoFx is an effect run while the prototype is
// fetched from newTarget (OrdinaryCreateFromConstructor), after which the detach check is repeated.
func (w *World) NewDataView(b *Buffer, byteOffset, byteLength V, protoFx string) *DView {
	offset := w.ToIndex(byteOffset)
	if b.Detached {
		throw("TypeError")
	}
	bbl := int64(len(b.Data))
	if offset > bbl {
		throw("RangeError")
	}
	var vlen int64
	if byteLength.T == Undef {
		vlen = bbl - offset
	} else {
		vlen = w.ToIndex(byteLength)
		if offset+vlen > bbl {
			throw("RangeError")
		}
	}
	w.Fx(protoFx)
	if b.Detached {
		throw("TypeError")
	}
	return &DView{Buf: b, Off: int(offset), Len: int(vlen)}
}

// DVGet is GetViewValue (25.3.1.5).
func (w *World) DVGet(d *DView, k Kind, args []V) V {
	idx := w.ToIndex(arg(args, 0))
	little := ToBoolean(arg(args, 1))
	if d.Buf.Detached {
		throw("TypeError")
	}
	size := int64(k.Size())
	if idx+size > int64(d.Len) {
		throw("RangeError")
	}
	p := d.Off + int(idx)
	return ValueOfRaw(k, GetRaw(d.Buf.Data[p:p+int(size)], int(size), little))
}

// DVSet is SetViewValue (25.3.1.6).
func (w *World) DVSet(d *DView, k Kind, args []V) V {
	idx := w.ToIndex(arg(args, 0))
	raw := w.ToRaw(k, arg(args, 1))
	little := ToBoolean(arg(args, 2))
	if d.Buf.Detached {
		throw("TypeError")
	}
	size := int64(k.Size())
	if idx+size > int64(d.Len) {
		throw("RangeError")
	}
	p := d.Off + int(idx)
	PutRaw(d.Buf.Data[p:p+int(size)], raw, int(size), little)
	if k == Float32 || k == Float64 {
		if IsNaNRaw(k, raw) {
			w.NaNs = append(w.NaNs, NaNWrite{Buf: d.Buf, Pos: p, K: k, BigEndian: !little})
		}
	}
	return U()
}

// DVProp is the byteLength / byteOffset getter of a DataView (25.3.4.2-3): TypeError when detached.
func (w *World) DVProp(d *DView, name string) V {
	if d.Buf.Detached {
		throw("TypeError")
	}
	if name == "byteLength" {
		return N(float64(d.Len))
	}
	return N(float64(d.Off))
}

// ---- ArrayBuffer (25.1) ----

// ABSpecies describes what the species constructor of ArrayBuffer.prototype.slice returns.
type ABSpecies struct {
	Mode string // "fresh" (new ArrayBuffer(n)) | "b2" (the second harness buffer) | "same" (the receiver) | "throw"
	Fx   string
}

// ABSlice is ArrayBuffer.prototype.slice (25.1.5.3).
func (w *World) ABSlice(b *Buffer, args []V, sp *ABSpecies) V {
	if b.Detached {
		throw("TypeError")
	}
	n := len(b.Data)
	first := relIndex(w.ToIntegerOrInfinity(arg(args, 0)), n)
	final := n
	if e := arg(args, 1); e.T != Undef {
		final = relIndex(w.ToIntegerOrInfinity(e), n)
	}
	newLen := final - first
	if newLen < 0 {
		newLen = 0
	}
	var nb *Buffer
	if sp == nil {
		nb = NewBuffer(newLen)
	} else {
		w.Fx(sp.Fx)
		switch sp.Mode {
		case "fresh":
			nb = NewBuffer(newLen)
		case "b2":
			nb = w.B[1]
		case "same":
			nb = b
		case "throw":
			throw("Boom")
		}
	}
	if nb.Detached {
		throw("TypeError")
	}
	if nb == b {
		throw("TypeError")
	}
	if len(nb.Data) < newLen {
		throw("TypeError")
	}
	if b.Detached {
		throw("TypeError")
	}
	copy(nb.Data[:newLen], b.Data[first:first+newLen])
	return V{T: ABuf, Bf: nb}
}

// ABByteLength is get ArrayBuffer.prototype.byteLength (25.1.5.1): +0 when detached.
func (w *World) ABByteLength(b *Buffer) V {
	if b.Detached {
		return N(0)
	}
	return N(float64(len(b.Data)))
}

// IsNaNRaw reports whether the element bit pattern encodes a NaN of the float kind k.
func IsNaNRaw(k Kind, raw uint64) bool {
	switch k {
	case Float32:
		return raw&0x7f800000 == 0x7f800000 && raw&0x7fffff != 0
	case Float64:
		return raw&0x7ff0000000000000 == 0x7ff0000000000000 && raw&0xfffffffffffff != 0
	}
	return false
}
