package tamodel

import (
	"math"
	"math/big"
)

// Kind is a TypedArray element type (ECMA-262 Table 71).
type Kind int

const (
	Int8 Kind = iota
	Uint8
	Uint8C
	Int16
	Uint16
	Int32
	Uint32
	Float32
	Float64
	BigInt64
	BigUint64
	NKinds
)

var kindNames = [...]string{"Int8Array", "Uint8Array", "Uint8ClampedArray", "Int16Array", "Uint16Array", "Int32Array", "Uint32Array", "Float32Array", "Float64Array", "BigInt64Array", "BigUint64Array"}
var kindSizes = [...]int{1, 1, 1, 2, 2, 4, 4, 4, 8, 8, 8}

// elemNames are the DataView accessor suffixes (Uint8C has none).
var elemNames = [...]string{"Int8", "Uint8", "", "Int16", "Uint16", "Int32", "Uint32", "Float32", "Float64", "BigInt64", "BigUint64"}

func (k Kind) Name() string     { return kindNames[k] }
func (k Kind) ElemName() string { return elemNames[k] }
func (k Kind) Size() int        { return kindSizes[k] }
func (k Kind) IsBig() bool      { return k == BigInt64 || k == BigUint64 }

// KindByName returns the kind for a constructor name ("Int8Array") or accessor suffix ("Int8").
func KindByName(s string) (Kind, bool) {
	for i := range kindNames {
		if kindNames[i] == s || (elemNames[i] != "" && elemNames[i] == s) {
			return Kind(i), true
		}
	}
	return 0, false
}

var two64 = new(big.Int).Lsh(big.NewInt(1), 64)

// modInt computes ToIntN/ToUintN's modular part: truncate, then modulo 2^bits (result in [0,2^bits)).
func modInt(f float64, bits uint) uint64 {
	if math.IsNaN(f) || math.IsInf(f, 0) {
		return 0
	}
	f = math.Trunc(f)
	m := math.Ldexp(1, int(bits))
	r := math.Mod(f, m) // exact
	if r < 0 {
		r += m
	}
	return uint64(r) // r < 2^32 here, exact
}

// clamp implements ToUint8Clamp (7.1.12): clamp to [0,255], round half to even.
func clamp(f float64) byte {
	if math.IsNaN(f) || f <= 0 {
		return 0
	}
	if f >= 255 {
		return 255
	}
	fl := math.Floor(f)
	switch {
	case fl+0.5 < f:
		return byte(fl + 1)
	case f < fl+0.5:
		return byte(fl)
	}
	if byte(fl)%2 == 0 {
		return byte(fl)
	}
	return byte(fl + 1)
}

// RoundFloat32 converts a float64 to the IEEE-754 binary32 bit pattern with roundTiesToEven, implemented
// on the bit representation (independent of the Go conversion float32(x)).
func RoundFloat32(f float64) uint32 {
	bits := math.Float64bits(f)
	sign := uint32(bits>>63) << 31
	exp := int((bits >> 52) & 0x7ff)
	man := bits & (1<<52 - 1)
	if exp == 0x7ff {
		if man != 0 {
			return sign | 0x7fc00000 | uint32(man>>29)&0x3fffff // a NaN (payload irrelevant; canonicalised by callers)
		}
		return sign | 0x7f800000
	}
	if exp == 0 && man == 0 {
		return sign
	}
	// value = m * 2^(e) with m a 53-bit integer (implicit bit included for normals)
	var m uint64
	var e int
	if exp == 0 {
		m, e = man, -1074
	} else {
		m, e = man|1<<52, exp-1075
	}
	// normalise so that m has exactly 53 significant bits
	for m < 1<<52 {
		m <<= 1
		e--
	}
	// unbiased exponent of the leading bit
	le := e + 52
	// float32: normal if le >= -126; the mantissa keeps 24 bits (leading included); subnormal keeps fewer.
	keep := 24
	if le < -126 {
		keep = 24 - (-126 - le)
	}
	if keep < 0 {
		return sign // far below half of the smallest subnormal
	}
	drop := uint(53 - keep)
	var q, rem, half uint64
	if drop >= 64 {
		q, rem, half = 0, 1, 2 // cannot happen (keep>=0 => drop<=53)
	} else {
		q = m >> drop
		rem = m & (1<<drop - 1)
		half = 1 << (drop - 1)
	}
	if rem > half || (rem == half && q&1 == 1) {
		q++
	}
	if keep < 24 { // subnormal result (may round up into the smallest normal, which the encoding handles)
		return sign | uint32(q)
	}
	if q == 1<<24 { // mantissa overflow
		q >>= 1
		le++
	}
	if le > 127 {
		return sign | 0x7f800000
	}
	return sign | uint32(le+127)<<23 | uint32(q)&0x7fffff
}

// Float32FromBits widens a binary32 bit pattern to float64 exactly.
func Float32FromBits(b uint32) float64 {
	sign := 1.0
	if b>>31 != 0 {
		sign = -1
	}
	exp := int(b>>23) & 0xff
	man := float64(b & 0x7fffff)
	switch exp {
	case 0xff:
		if man != 0 {
			return math.NaN()
		}
		return sign * math.Inf(1)
	case 0:
		return sign * math.Ldexp(man, -149)
	}
	return sign * math.Ldexp(man+float64(1<<23), exp-150)
}

// RawOfNumber returns the element bits NumericToRawBytes would store for a Number, as an unsigned integer of
// the element width. A NaN is stored with the canonical quiet-NaN pattern; the comparison side treats all NaN
// encodings as equal only where the spec leaves them implementation-defined (it does, for NaN payloads).
func RawOfNumber(k Kind, f float64) uint64 {
	switch k {
	case Int8, Uint8:
		return modInt(f, 8)
	case Uint8C:
		return uint64(clamp(f))
	case Int16, Uint16:
		return modInt(f, 16)
	case Int32, Uint32:
		return modInt(f, 32)
	case Float32:
		if math.IsNaN(f) {
			return 0x7fc00000
		}
		return uint64(RoundFloat32(f))
	case Float64:
		if math.IsNaN(f) {
			return 0x7ff8000000000000
		}
		return math.Float64bits(f)
	}
	panic("tamodel: RawOfNumber on BigInt kind")
}

// RawOfBigInt is ToBigInt64 / ToBigUint64 (both are the value modulo 2^64 as a bit pattern).
func RawOfBigInt(b *big.Int) uint64 {
	m := new(big.Int).Mod(b, two64) // Mod is Euclidean: result in [0,2^64)
	return m.Uint64()
}

// PutRaw stores the low size bytes of raw at dst in the given byte order.
func PutRaw(dst []byte, raw uint64, size int, little bool) {
	for i := 0; i < size; i++ {
		b := byte(raw >> (8 * uint(i)))
		if little {
			dst[i] = b
		} else {
			dst[size-1-i] = b
		}
	}
}

// GetRaw loads size bytes as an unsigned integer.
func GetRaw(src []byte, size int, little bool) uint64 {
	var raw uint64
	for i := 0; i < size; i++ {
		var b byte
		if little {
			b = src[i]
		} else {
			b = src[size-1-i]
		}
		raw |= uint64(b) << (8 * uint(i))
	}
	return raw
}

// ValueOfRaw is RawBytesToNumeric on an already assembled bit pattern.
func ValueOfRaw(k Kind, raw uint64) V {
	switch k {
	case Int8:
		return N(float64(int8(raw)))
	case Uint8, Uint8C:
		return N(float64(uint8(raw)))
	case Int16:
		return N(float64(int16(raw)))
	case Uint16:
		return N(float64(uint16(raw)))
	case Int32:
		return N(float64(int32(raw)))
	case Uint32:
		return N(float64(uint32(raw)))
	case Float32:
		return N(Float32FromBits(uint32(raw)))
	case Float64:
		return N(math.Float64frombits(raw))
	case BigInt64:
		return Bg(big.NewInt(int64(raw)))
	case BigUint64:
		return Bg(new(big.Int).SetUint64(raw))
	}
	panic("tamodel: ValueOfRaw")
}

// ToNumeric converts v for storing into an array of kind k (ToBigInt for BigInt kinds, else ToNumber),
// running the value's coercion effects, and returns the element bit pattern.
func (w *World) ToRaw(k Kind, v V) uint64 {
	if k.IsBig() {
		return RawOfBigInt(w.ToBigInt(v))
	}
	return RawOfNumber(k, w.ToNumber(v))
}

// LittleEndian is the byte order typed arrays use on the platform under test (amd64/arm64).
const LittleEndian = true
