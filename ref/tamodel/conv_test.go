package tamodel

import (
	"math"
	"testing"
)

func TestRoundFloat32(t *testing.T) {
	vals := []float64{0, 1, -1, 1.5, 16777217, 16777219, 1 + math.Ldexp(1, -24), 1 + math.Ldexp(1, -24) + math.Ldexp(1, -50), 3.4028234663852886e38, 3.4028235677973366e38, 3.4028235677973362e38, 1e-46, 1.401298464324817e-45, 7.006492321624085e-46, 7.006492321624087e-46, 5e-324, 1.1754943508222875e-38, 1.1754942106924411e-38, 1.17549435e-38 - 1e-46, math.Inf(1), math.Inf(-1), 2147483648, 0.1, 1e10, 123456789.123}
	for e := -160; e < 140; e++ {
		for _, m := range []float64{1, 1.5, 1.9999999, 1.00000006, 1.00000005960464477539} {
			vals = append(vals, math.Ldexp(m, e), -math.Ldexp(m, e))
		}
	}
	for _, f := range vals {
		want := math.Float32bits(float32(f))
		got := RoundFloat32(f)
		if want != got {
			t.Errorf("%g: want %08x got %08x", f, want, got)
		}
		if Float32FromBits(got) != float64(math.Float32frombits(got)) {
			t.Errorf("widen %08x", got)
		}
	}
}
