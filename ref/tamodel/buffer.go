package tamodel

import "math"

// Buffer models an ArrayBuffer: [[ArrayBufferData]] and the detached state.
type Buffer struct {
	Data     []byte
	Detached bool
}

func NewBuffer(n int) *Buffer { return &Buffer{Data: make([]byte, n)} }

// Detach is DetachArrayBuffer (25.1.3.5).
func (b *Buffer) Detach() {
	b.Data = nil
	b.Detached = true
}

// NaNWrite records that the model stored a NaN of element kind K at byte Pos of Buf: the encoding of a NaN
// is implementation-defined (NumericToRawBytes step 3.a / 4.a), so the comparison accepts any NaN there.
type NaNWrite struct {
	Buf       *Buffer
	Pos       int
	K         Kind
	BigEndian bool
}

// View models a TypedArray: [[ViewedArrayBuffer]], [[ByteOffset]] (Off, bytes), [[ArrayLength]] (Len, elements).
type View struct {
	Buf     *Buffer
	Kind    Kind
	Off     int
	Len     int
	Species *Species // non-nil: the object has an own "constructor" property with this @@species
}

// Species describes the constructor an operation obtains via SpeciesConstructor (or is called on, for from/of).
type Species struct {
	Mode string // "fresh": new Kind(...args); "b1"/"b2": new Kind(B, Off, Len) ignoring args; "throw"; "same": returns the receiver
	Fx   string // effect executed inside the constructor before anything else
	Kind Kind
	Off  int // bytes
	Len  int // elements
}

// DView models a DataView.
type DView struct {
	Buf *Buffer
	Off int
	Len int
}

func (a *View) outOfBounds() bool { return a.Buf.Detached }

// validIndex is IsValidIntegerIndex (10.4.5.14) for a Number index.
func (a *View) validIndex(idx float64) bool {
	if a.Buf.Detached {
		return false
	}
	if idx != math.Trunc(idx) || math.IsInf(idx, 0) || math.IsNaN(idx) {
		return false
	}
	if idx == 0 && math.Signbit(idx) {
		return false
	}
	return idx >= 0 && idx < float64(a.Len)
}

func (a *View) pos(i int) int { return a.Off + i*a.Kind.Size() }

// getElem is TypedArrayGetElement (10.4.5.15) for an integer index already known to be a Number.
func (w *World) getElem(a *View, i int) V {
	if !a.validIndex(float64(i)) {
		return U()
	}
	p := a.pos(i)
	return ValueOfRaw(a.Kind, GetRaw(a.Buf.Data[p:p+a.Kind.Size()], a.Kind.Size(), LittleEndian))
}

func (w *World) rawAt(a *View, i int) uint64 {
	p := a.pos(i)
	return GetRaw(a.Buf.Data[p:p+a.Kind.Size()], a.Kind.Size(), LittleEndian)
}

func (w *World) noteNaN(b *Buffer, pos int, k Kind, raw uint64) {
	if IsNaNRaw(k, raw) {
		w.NaNs = append(w.NaNs, NaNWrite{Buf: b, Pos: pos, K: k})
	}
}

// putRawElem stores an element bit pattern (SetValueInBuffer) at element index i.
func (w *World) putRawElem(a *View, i int, raw uint64) {
	p := a.pos(i)
	PutRaw(a.Buf.Data[p:p+a.Kind.Size()], raw, a.Kind.Size(), LittleEndian)
	w.noteNaN(a.Buf, p, a.Kind, raw)
}

// setElem is TypedArraySetElement (10.4.5.16): convert first (effects!), then store only if the index is (still) valid.
func (w *World) setElem(a *View, idx float64, v V) {
	raw := w.ToRaw(a.Kind, v)
	if a.validIndex(idx) {
		w.putRawElem(a, int(idx), raw)
	}
}

// storeValue writes an already converted Numeric (no further effects possible).
func (w *World) storeValue(a *View, i int, v V) {
	w.setElem(a, float64(i), v)
}

// validate is ValidateTypedArray (23.2.4.4).
func (a *View) validate() {
	if a.Buf.Detached {
		throw("TypeError")
	}
}

// ---- constructors ----

// NewFromLength is new K(length) (AllocateTypedArray with a length).
func (w *World) NewFromLength(k Kind, lenArg V) *View {
	n := w.ToIndex(lenArg)
	if n > 1<<30 {
		throw("RangeError")
	}
	return &View{Buf: NewBuffer(int(n) * k.Size()), Kind: k, Len: int(n)}
}

// NewFromBuffer is InitializeTypedArrayFromArrayBuffer (23.2.5.1.3).
func (w *World) NewFromBuffer(k Kind, b *Buffer, byteOffset, length V) *View {
	size := int64(k.Size())
	offset := w.ToIndex(byteOffset)
	if offset%size != 0 {
		throw("RangeError")
	}
	var newLength int64
	if length.T != Undef {
		newLength = w.ToIndex(length)
	}
	if b.Detached {
		throw("TypeError")
	}
	bbl := int64(len(b.Data))
	var newByteLength int64
	if length.T == Undef {
		if bbl%size != 0 {
			throw("RangeError")
		}
		newByteLength = bbl - offset
		if newByteLength < 0 {
			throw("RangeError")
		}
	} else {
		newByteLength = newLength * size
		if offset+newByteLength > bbl {
			throw("RangeError")
		}
	}
	return &View{Buf: b, Kind: k, Off: int(offset), Len: int(newByteLength / size)}
}

// NewFromTypedArray is InitializeTypedArrayFromTypedArray (23.2.5.1.2).
func (w *World) NewFromTypedArray(k Kind, src *View) *View {
	if src.Buf.Detached {
		throw("TypeError")
	}
	n := src.Len
	dst := &View{Buf: NewBuffer(n * k.Size()), Kind: k, Len: n}
	if k.IsBig() != src.Kind.IsBig() {
		throw("TypeError")
	}
	if k == src.Kind {
		copy(dst.Buf.Data, src.Buf.Data[src.Off:src.Off+n*k.Size()])
		return dst
	}
	for i := 0; i < n; i++ {
		w.storeValue(dst, i, w.getElem(src, i))
	}
	return dst
}

// NewFromList is InitializeTypedArrayFromList / FromArrayLike: each value is converted in order.
func (w *World) NewFromList(k Kind, vals []V) *View {
	dst := &View{Buf: NewBuffer(len(vals) * k.Size()), Kind: k, Len: len(vals)}
	for i, v := range vals {
		w.setElem(dst, float64(i), v)
	}
	return dst
}

// create is TypedArrayCreateFromCtor (23.2.4.2) applied to a constructor described by sp (nil: the intrinsic
// constructor of kind def). args is either [length] or [buffer, byteOffset, length].
func (w *World) create(recv *View, sp *Species, def Kind, args []V) *View {
	var res *View
	if sp == nil {
		res = w.construct(def, args)
	} else {
		w.Fx(sp.Fx)
		switch sp.Mode {
		case "fresh":
			res = w.construct(sp.Kind, args)
		case "b1":
			res = w.NewFromBuffer(sp.Kind, w.B[0], N(float64(sp.Off)), N(float64(sp.Len)))
		case "b2":
			res = w.NewFromBuffer(sp.Kind, w.B[1], N(float64(sp.Off)), N(float64(sp.Len)))
		case "same":
			res = recv
		case "throw":
			throw("Boom")
		default:
			panic("tamodel: species mode " + sp.Mode)
		}
	}
	res.validate()
	if len(args) == 1 && args[0].T == Num {
		if float64(res.Len) < args[0].N {
			throw("TypeError")
		}
	}
	return res
}

func (w *World) construct(k Kind, args []V) *View {
	if len(args) >= 1 && args[0].T == ABuf {
		off, ln := U(), U()
		if len(args) > 1 {
			off = args[1]
		}
		if len(args) > 2 {
			ln = args[2]
		}
		return w.NewFromBuffer(k, args[0].Bf, off, ln)
	}
	if len(args) == 0 {
		return w.NewFromLength(k, U())
	}
	return w.NewFromLength(k, args[0])
}

// speciesCreate is TypedArraySpeciesCreate (23.2.4.1).
func (w *World) speciesCreate(a *View, args []V) *View {
	res := w.create(a, a.Species, a.Kind, args)
	if res.Kind.IsBig() != a.Kind.IsBig() {
		throw("TypeError")
	}
	return res
}
