package jsonmodel

import (
	"fmt"
	"strconv"
	"strings"
)

// JSStr renders a string as an ASCII-only JavaScript string literal.
func JSStr(s Str) string {
	var sb strings.Builder
	sb.WriteByte('"')
	for _, c := range s {
		if c >= 0x20 && c < 0x7f && c != '"' && c != '\\' {
			sb.WriteByte(byte(c))
		} else {
			fmt.Fprintf(&sb, "\\u%04x", c)
		}
	}
	sb.WriteByte('"')
	return sb.String()
}

func jsNum(f float64) string {
	switch {
	case f != f:
		return "NaN"
	case f == 0 && 1/f < 0:
		return "-0"
	case f > 1.7e308:
		return "Infinity"
	case f < -1.7e308:
		return "-Infinity"
	}
	return strconv.FormatFloat(f, 'g', -1, 64)
}

// Src renders a JavaScript expression that builds the value (fresh objects on every evaluation). Object
// identity is preserved: an object (or function) that is reachable through more than one path - a DAG, not a
// tree - is bound to a variable once and referenced from every position. Cyclic graphs must carry their own
// Src override on the root object (an object with an override is opaque).
func Src(v Value) string {
	if v.K != KObject {
		return (&srcGen{}).val(v)
	}
	g := &srcGen{names: map[*Object]string{}}
	counts := map[*Object]int{}
	var order []*Object // post-order of first visits: dependencies first
	var walk func(o *Object)
	walk = func(o *Object) {
		counts[o]++
		if counts[o] > 1 {
			return
		}
		if o.Src == "" {
			for _, p := range o.Props {
				if p.Val.K == KObject && !p.Accessor {
					walk(p.Val.O)
				}
			}
			if o.Target != nil {
				walk(o.Target)
			}
		}
		order = append(order, o)
	}
	walk(v.O)
	var defs strings.Builder
	for _, o := range order {
		if counts[o] > 1 {
			body := g.obj(o) // uses the names of the shared objects defined so far
			name := "s" + strconv.Itoa(len(g.names))
			g.names[o] = name
			defs.WriteString("var " + name + "=" + body + ";")
		}
	}
	if defs.Len() == 0 {
		return g.obj(v.O)
	}
	return "(function(){" + defs.String() + "return " + g.val(v) + "})()"
}

type srcGen struct {
	names map[*Object]string
}

func (g *srcGen) val(v Value) string {
	switch v.K {
	case KUndefined:
		return "undefined"
	case KNull:
		return "null"
	case KBool:
		if v.B {
			return "true"
		}
		return "false"
	case KNumber:
		return jsNum(v.N)
	case KString:
		return JSStr(v.S)
	case KBigInt:
		return v.S.UTF8() + "n"
	case KSymbol:
		return "Symbol(" + JSStr(v.S) + ")"
	}
	if n, ok := g.names[v.O]; ok {
		return n
	}
	return g.obj(v.O)
}

// obj renders the construction of o itself (never a reference to o).
func (g *srcGen) obj(o *Object) string {
	if o.Src != "" {
		return o.Src
	}
	switch o.Class {
	case ClsNumber:
		return "new Number(" + jsNum(o.Prim.N) + ")"
	case ClsString:
		return "new String(" + JSStr(o.Prim.S) + ")"
	case ClsBoolean:
		return "new Boolean(" + g.val(o.Prim) + ")"
	case ClsSymbol, ClsBigInt:
		return "Object(" + g.val(o.Prim) + ")"
	case ClsProxy:
		return "new Proxy(" + g.val(Obj(o.Target)) + ",{})"
	case ClsFunction:
		return "function(){}"
	case ClsArray:
		// literal with elisions when the properties are exactly indices below length
		simple := o.SymProps == 0
		elems := make([]string, o.Length)
		for _, p := range o.Props {
			idx, ok := ArrayIndex(p.Key)
			if !ok || idx >= o.Length || p.Hidden || p.Accessor {
				simple = false
				break
			}
			elems[idx] = g.val(p.Val)
		}
		if simple && o.Length < 64 {
			s := "[" + strings.Join(elems, ",")
			if o.Length > 0 && elems[o.Length-1] == "" {
				s += ","
			}
			return s + "]"
		}
		return g.build(o, "[]")
	}
	simple := o.SymProps == 0
	for _, p := range o.Props {
		if p.Hidden || p.Accessor {
			simple = false
		}
	}
	if simple {
		var sb strings.Builder
		sb.WriteString("({")
		for i, p := range o.Props {
			if i > 0 {
				sb.WriteByte(',')
			}
			if p.Key.Eq(S("__proto__")) {
				sb.WriteString("[" + JSStr(p.Key) + "]")
			} else {
				sb.WriteString(JSStr(p.Key))
			}
			sb.WriteByte(':')
			sb.WriteString(g.val(p.Val))
		}
		sb.WriteString("})")
		return sb.String()
	}
	return g.build(o, "{}")
}

func (g *srcGen) build(o *Object, init string) string {
	var sb strings.Builder
	sb.WriteString("(function(){var o=" + init + ";")
	for _, p := range o.Props {
		switch {
		case p.Accessor:
			// the getter builds a fresh value on every call
			fmt.Fprintf(&sb, "Object.defineProperty(o,%s,{get:function(){return %s},enumerable:%v,configurable:true});", JSStr(p.Key), Src(p.Val), !p.Hidden)
		default:
			fmt.Fprintf(&sb, "Object.defineProperty(o,%s,{value:%s,writable:true,enumerable:%v,configurable:true});", JSStr(p.Key), g.val(p.Val), !p.Hidden)
		}
	}
	for i := 0; i < o.SymProps; i++ {
		fmt.Fprintf(&sb, "o[Symbol(\"s%d\")]=%d;", i, i)
	}
	if o.Class == ClsArray {
		fmt.Fprintf(&sb, "o.length=%d;", o.Length)
	}
	sb.WriteString("return o})()")
	return sb.String()
}
