// Package jsonmodel is the reference model of check C19: an ECMA-404 recogniser and the ECMA-262
// JSON.parse (InternalizeJSONProperty) / JSON.stringify (SerializeJSONProperty, SerializeJSONObject,
// SerializeJSONArray, QuoteJSONString) algorithms written directly from the specification text over a
// small value model. It does not import goja. Strings are sequences of UTF-16 code units.
package jsonmodel

import (
	"fmt"
	"math"
	"sort"
	"strconv"
	"strings"
	"unicode/utf16"
)

// Str is an ECMAScript String value: a sequence of UTF-16 code units (lone surrogates allowed).
type Str []uint16

// S converts a (valid UTF-8) Go string.
func S(s string) Str { return Str(utf16.Encode([]rune(s))) }

func (s Str) Eq(t Str) bool {
	if len(s) != len(t) {
		return false
	}
	for i := range s {
		if s[i] != t[i] {
			return false
		}
	}
	return true
}

// Quote renders the string injectively in printable ASCII: everything outside 0x20..0x7e and the
// characters " and \ are written as \uXXXX (lower-case hex), exactly like the JS-side dump helper.
func (s Str) Quote() string {
	const hexd = "0123456789abcdef"
	b := make([]byte, 0, len(s)+8)
	b = append(b, '"')
	for _, c := range s {
		if c >= 0x20 && c < 0x7f && c != '"' && c != '\\' {
			b = append(b, byte(c))
		} else {
			b = append(b, '\\', 'u', hexd[c>>12], hexd[c>>8&15], hexd[c>>4&15], hexd[c&15])
		}
	}
	b = append(b, '"')
	return string(b)
}

// WellFormed reports whether the string has no lone surrogates.
func (s Str) WellFormed() bool {
	for i := 0; i < len(s); i++ {
		c := s[i]
		if c >= 0xD800 && c <= 0xDBFF {
			if i+1 < len(s) && s[i+1] >= 0xDC00 && s[i+1] <= 0xDFFF {
				i++
				continue
			}
			return false
		}
		if c >= 0xDC00 && c <= 0xDFFF {
			return false
		}
	}
	return true
}

// UTF8 converts a well-formed string to UTF-8 (lone surrogates become U+FFFD).
func (s Str) UTF8() string { return string(utf16.Decode(s)) }

type Kind uint8

const (
	KUndefined Kind = iota
	KNull
	KBool
	KNumber
	KString
	KBigInt
	KSymbol
	KObject
)

// Value is an ECMAScript language value.
type Value struct {
	K Kind
	B bool
	N float64
	S Str     // KString; KBigInt: decimal digits; KSymbol: description
	O *Object // KObject
}

var (
	Undefined = Value{K: KUndefined}
	Null      = Value{K: KNull}
	True      = Value{K: KBool, B: true}
	False     = Value{K: KBool}
)

func Bool(b bool) Value        { return Value{K: KBool, B: b} }
func Num(f float64) Value      { return Value{K: KNumber, N: f} }
func String(s Str) Value       { return Value{K: KString, S: s} }
func GoString(s string) Value  { return Value{K: KString, S: S(s)} }
func BigInt(dec string) Value  { return Value{K: KBigInt, S: S(dec)} }
func Symbol(desc string) Value { return Value{K: KSymbol, S: S(desc)} }
func Obj(o *Object) Value      { return Value{K: KObject, O: o} }

type Class uint8

const (
	ClsObject Class = iota
	ClsArray
	ClsFunction
	ClsNumber  // has [[NumberData]]
	ClsString  // has [[StringData]]
	ClsBoolean // has [[BooleanData]]
	ClsSymbol  // has [[SymbolData]]
	ClsBigInt  // has [[BigIntData]]
	ClsProxy   // trap-less proxy: every internal method forwards to Target; has none of the data slots
)

// Prop is an own string-keyed property. All properties are configurable; Hidden = not enumerable.
type Prop struct {
	Key      Str
	Val      Value
	Hidden   bool
	Accessor bool // defined by a getter that returns Val (only matters for source generation)
}

type Object struct {
	Class    Class
	Props    []Prop // insertion order
	SymProps int    // number of symbol-keyed own properties (invisible to JSON; source generation only)
	Length   uint32 // ClsArray
	Prim     Value  // boxed primitive
	Target   *Object
	Proto    *Object                              // optional modelled prototype (only [[Get]] follows it); nil = a pristine built-in prototype
	Call     func(this Value, args []Value) Value // ClsFunction
	Src      string                               // JS source of a function / special construct
}

// Throw is an ECMAScript exception of one of the native error classes.
type Throw struct {
	Class string // "SyntaxError", "TypeError"
	Msg   string
}

func (t *Throw) Error() string { return t.Class + ": " + t.Msg }

func throwf(class, format string, a ...interface{}) {
	panic(&Throw{Class: class, Msg: fmt.Sprintf(format, a...)})
}

func NewObject() *Object { return &Object{Class: ClsObject} }
func NewArray(elems ...Value) *Object {
	a := &Object{Class: ClsArray}
	for i, e := range elems {
		a.Props = append(a.Props, Prop{Key: S(strconv.Itoa(i)), Val: e})
	}
	a.Length = uint32(len(elems))
	return a
}
func NewFunction(src string, call func(this Value, args []Value) Value) *Object {
	return &Object{Class: ClsFunction, Call: call, Src: src}
}
func NewBox(prim Value) *Object {
	o := &Object{Prim: prim}
	switch prim.K {
	case KNumber:
		o.Class = ClsNumber
	case KString:
		o.Class = ClsString
		for i, c := range prim.S {
			o.Props = append(o.Props, Prop{Key: S(strconv.Itoa(i)), Val: String(Str{c})})
		}
		o.Props = append(o.Props, Prop{Key: S("length"), Val: Num(float64(len(prim.S))), Hidden: true})
	case KBool:
		o.Class = ClsBoolean
	case KSymbol:
		o.Class = ClsSymbol
	case KBigInt:
		o.Class = ClsBigInt
	default:
		panic("NewBox: not boxable")
	}
	return o
}
func NewProxy(target *Object) *Object { return &Object{Class: ClsProxy, Target: target} }

// real follows trap-less proxies to the object that actually holds the properties.
func (o *Object) real() *Object {
	for o.Class == ClsProxy {
		o = o.Target
	}
	return o
}

// IsArray is the abstract operation IsArray (sees through proxies).
func (o *Object) IsArray() bool { return o.real().Class == ClsArray }

// IsCallable: function objects and proxies of them.
func (v Value) IsCallable() bool { return v.K == KObject && v.O.real().Class == ClsFunction }

// ArrayIndex reports whether key is an array index (canonical numeric string of an integer < 2^32-1).
func ArrayIndex(key Str) (uint32, bool) {
	if len(key) == 0 || len(key) > 10 {
		return 0, false
	}
	if key[0] == '0' {
		return 0, len(key) == 1
	}
	var n uint64
	for _, c := range key {
		if c < '0' || c > '9' {
			return 0, false
		}
		n = n*10 + uint64(c-'0')
	}
	if n >= math.MaxUint32 {
		return 0, false
	}
	return uint32(n), true
}

func (o *Object) find(key Str) int {
	for i := range o.Props {
		if o.Props[i].Key.Eq(key) {
			return i
		}
	}
	return -1
}

// Get is [[Get]]: own properties (+ array length), then the modelled prototype chain. The built-in prototype
// objects are not modelled: they are assumed pristine and none of the names looked up by the JSON algorithms
// in this model (toJSON, allow-list names) may exist on them.
func (o *Object) Get(key Str) Value {
	r := o.real()
	if i := r.find(key); i >= 0 {
		return r.Props[i].Val
	}
	if r.Class == ClsArray && key.Eq(S("length")) {
		return Num(float64(r.Length))
	}
	if r.Proto != nil {
		return r.Proto.Get(key)
	}
	return Undefined
}

// CreateDataProperty defines (or overwrites the value of) an own enumerable data property; an existing
// key keeps its position.
func (o *Object) CreateDataProperty(key Str, v Value) {
	r := o.real()
	if i := r.find(key); i >= 0 {
		r.Props[i].Val = v
		r.Props[i].Hidden = false
		r.Props[i].Accessor = false
		return
	}
	r.Props = append(r.Props, Prop{Key: key, Val: v})
	if r.Class == ClsArray {
		if idx, ok := ArrayIndex(key); ok && idx >= r.Length {
			r.Length = idx + 1
		}
	}
}

// Set is [[Set]] on an object whose properties are all writable data properties.
func (o *Object) Set(key Str, v Value) {
	r := o.real()
	if i := r.find(key); i >= 0 {
		r.Props[i].Val = v
		return
	}
	o.CreateDataProperty(key, v)
}

// Delete is [[Delete]] (all properties configurable).
func (o *Object) Delete(key Str) {
	r := o.real()
	if i := r.find(key); i >= 0 {
		r.Props = append(r.Props[:i:i], r.Props[i+1:]...)
	}
}

// SetLength is ArraySetLength for a shrinking or growing length.
func (o *Object) SetLength(n uint32) {
	r := o.real()
	if r.Class != ClsArray {
		return
	}
	var kept []Prop
	for _, p := range r.Props {
		if idx, ok := ArrayIndex(p.Key); ok && idx >= n {
			continue
		}
		kept = append(kept, p)
	}
	r.Props = kept
	r.Length = n
}

// OwnKeys is OrdinaryOwnPropertyKeys restricted to string keys: array indices in ascending order, then the
// other strings in insertion order. enumerableOnly filters like EnumerableOwnProperties(O, key).
func (o *Object) OwnKeys(enumerableOnly bool) []Str {
	r := o.real()
	type ik struct {
		idx uint32
		key Str
	}
	var idxs []ik
	var rest []Str
	for _, p := range r.Props {
		if enumerableOnly && p.Hidden {
			continue
		}
		if i, ok := ArrayIndex(p.Key); ok {
			idxs = append(idxs, ik{i, p.Key})
		} else {
			rest = append(rest, p.Key)
		}
	}
	sort.SliceStable(idxs, func(a, b int) bool { return idxs[a].idx < idxs[b].idx })
	res := make([]Str, 0, len(idxs)+len(rest))
	for _, k := range idxs {
		res = append(res, k.key)
	}
	return append(res, rest...)
}

// LengthOfArrayLike for arrays (and proxies of arrays).
func (o *Object) LengthOfArrayLike() uint32 {
	r := o.real()
	if r.Class == ClsArray {
		return r.Length
	}
	v := r.Get(S("length"))
	if v.K == KNumber && v.N > 0 {
		return uint32(v.N)
	}
	return 0
}

// NumBits is the bit pattern used by the dump (all NaNs are one value).
func NumBits(f float64) string {
	if f != f {
		return "nan"
	}
	return strconv.FormatUint(math.Float64bits(f), 16)
}

// Dump renders a value built from primitives, plain objects and arrays exactly like the JS-side dump
// helper of the check (own keys in [[OwnPropertyKeys]] order, array length, holes, -0, number bit patterns).
func Dump(v Value) string {
	var sb strings.Builder
	dump(&sb, v, 0)
	return sb.String()
}

func dump(sb *strings.Builder, v Value, depth int) {
	if depth > 100000 {
		sb.WriteString("?deep")
		return
	}
	switch v.K {
	case KUndefined:
		sb.WriteString("U")
	case KNull:
		sb.WriteString("L")
	case KBool:
		if v.B {
			sb.WriteString("T")
		} else {
			sb.WriteString("F")
		}
	case KNumber:
		sb.WriteString("N")
		sb.WriteString(NumBits(v.N))
	case KString:
		sb.WriteString("S")
		sb.WriteString(v.S.Quote())
	case KBigInt:
		sb.WriteString("B")
		sb.WriteString(v.S.UTF8())
	case KSymbol:
		sb.WriteString("Y")
	case KObject:
		o := v.O
		switch o.Class {
		case ClsFunction:
			sb.WriteString("f")
			return
		case ClsArray:
			fmt.Fprintf(sb, "A%d[", o.Length)
		case ClsObject:
			sb.WriteString("O{")
		default:
			fmt.Fprintf(sb, "?class%d", o.Class)
			return
		}
		for _, k := range o.OwnKeys(false) {
			p := o.Props[o.find(k)]
			sb.WriteString(k.Quote())
			if p.Accessor {
				sb.WriteString("!acc,")
				continue
			}
			if p.Hidden {
				sb.WriteString("!wc")
			}
			sb.WriteByte(':')
			dump(sb, p.Val, depth+1)
			sb.WriteByte(',')
		}
		for i := 0; i < o.SymProps; i++ {
			sb.WriteString("Y,")
		}
		if o.Class == ClsArray {
			sb.WriteByte(']')
		} else {
			sb.WriteByte('}')
		}
	}
}

// Str2 builds a string from code units.
func Str2(units ...uint16) Value { return String(Str(units)) }
