package jsonmodel

import (
	"math"
	"strconv"
	"strings"
)

// NumberToString is Number::toString(x, 10) (ECMA-262 6.1.6.1.20). The digit string is the shortest one
// that round-trips (strconv 'e', -1), the layout follows the spec steps literally.
func NumberToString(x float64) string {
	switch {
	case x != x:
		return "NaN"
	case x == 0:
		return "0"
	case x < 0:
		return "-" + NumberToString(-x)
	case math.IsInf(x, 1):
		return "Infinity"
	}
	// x = s * 10^(n-k), s has k digits
	e := strconv.FormatFloat(x, 'e', -1, 64) // d.ddddde±xx
	mant, exps, _ := strings.Cut(e, "e")
	exp, _ := strconv.Atoi(exps)
	digits := strings.Replace(mant, ".", "", 1)
	k := len(digits)
	n := exp + 1
	switch {
	case k <= n && n <= 21:
		return digits + strings.Repeat("0", n-k)
	case 0 < n && n <= 21:
		return digits[:n] + "." + digits[n:]
	case -6 < n && n <= 0:
		return "0." + strings.Repeat("0", -n) + digits
	}
	sign := "+"
	en := n - 1
	if en < 0 {
		sign = "-"
		en = -en
	}
	if k == 1 {
		return digits + "e" + sign + strconv.Itoa(en)
	}
	return digits[:1] + "." + digits[1:] + "e" + sign + strconv.Itoa(en)
}

// ToIntegerOrInfinity (7.1.5).
func ToIntegerOrInfinity(x float64) float64 {
	if x != x || x == 0 {
		return 0
	}
	if math.IsInf(x, 0) {
		return x
	}
	return math.Trunc(x)
}
