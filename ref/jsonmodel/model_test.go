package jsonmodel

import (
	"encoding/json"
	"testing"
)

// The recogniser must accept exactly what encoding/json.Valid accepts on well-formed UTF-8 input (both
// implement RFC 8259 / ECMA-404); exhaustive over all strings up to 6 symbols of a hostile alphabet.
func TestValidAgainstGo(t *testing.T) {
	alpha := []string{"[", "]", "{", "}", ",", ":", "\"", "\\", "0", "1", "-", ".", "e", "+", "u", "t", "true", "null", " ", "\n", "a", "\x01", " ", "/", "é"}
	n := 0
	var rec func(s string, d int)
	rec = func(s string, d int) {
		n++
		if got, want := Valid(S(s)), json.Valid([]byte(s)); got != want {
			t.Fatalf("Valid(%q)=%v, encoding/json says %v", s, got, want)
		}
		if _, err := ParseText(S(s)); (err == nil) != Valid(S(s)) {
			t.Fatalf("ParseText/Valid disagree on %q", s)
		}
		if d == 0 {
			return
		}
		for _, a := range alpha {
			rec(s+a, d-1)
		}
	}
	depth := 5
	if testing.Short() {
		depth = 4
	}
	rec("", depth)
	t.Logf("%d texts", n)
}

func TestNumberToString(t *testing.T) {
	for _, c := range []struct {
		f float64
		s string
	}{{0, "0"}, {1, "1"}, {-1.5, "-1.5"}, {1e21, "1e+21"}, {1e20, "100000000000000000000"}, {123456789012345680000, "123456789012345680000"},
		{1e-6, "0.000001"}, {1e-7, "1e-7"}, {1.5e-7, "1.5e-7"}, {0.1, "0.1"}, {5e-324, "5e-324"}, {1.7976931348623157e308, "1.7976931348623157e+308"},
		{12345.678, "12345.678"}, {0.000123, "0.000123"}, {4294967295, "4294967295"}, {1.2e21, "1.2e+21"}} {
		if got := NumberToString(c.f); got != c.s {
			t.Errorf("NumberToString(%v)=%q want %q", c.f, got, c.s)
		}
	}
}

func str(t *testing.T, v, rep, sp Value) string {
	r, ok, err := Stringify(v, rep, sp)
	if err != nil {
		return err.Class
	}
	if !ok {
		return "undefined"
	}
	return r.UTF8()
}

// Expected texts are the ones every major engine produces (checked by hand against the spec steps).
func TestStringifyExamples(t *testing.T) {
	o := NewObject()
	o.CreateDataProperty(S("b"), Num(1))
	o.CreateDataProperty(S("1"), NewValueArray())
	o.CreateDataProperty(S("a"), Obj(NewArray(Num(1), Undefined, Obj(NewObject()))))
	for _, c := range []struct {
		v, rep, sp Value
		want       string
	}{
		{Obj(o), Undefined, Undefined, `{"1":[],"b":1,"a":[1,null,{}]}`},
		{Obj(o), Undefined, Num(1), "{\n \"1\": [],\n \"b\": 1,\n \"a\": [\n  1,\n  null,\n  {}\n ]\n}"},
		{Obj(o), Undefined, GoString("ab"), "{\nab\"1\": [],\nab\"b\": 1,\nab\"a\": [\nabab1,\nababnull,\nabab{}\nab]\n}"},
		{Obj(o), Obj(NewArray(GoString("a"), Num(1), GoString("a"))), Undefined, `{"a":[1,null,{}],"1":[]}`},
		{Obj(NewBox(Symbol("s"))), Undefined, Undefined, `{}`},
		{Obj(NewBox(BigInt("1"))), Undefined, Undefined, `TypeError`},
		{Symbol("s"), Undefined, Undefined, `undefined`},
		{Num(-0.0), Undefined, Undefined, `0`},
		{Obj(NewArray(Num(1))), Undefined, Num(1e30), "[\n          1\n]"},
		{GoString(" \x7f/\"\\\x00\x1f"), Undefined, Undefined, "\" \x7f/\\\"\\\\\\u0000\\u001f\""},
		{String(Str{0xD800, 'a', 0xDC00, 0xD83D, 0xDE00}), Undefined, Undefined, "\"\\ud800a\\udc00\U0001F600\""},
	} {
		if got := str(t, c.v, c.rep, c.sp); got != c.want {
			t.Errorf("got %q want %q", got, c.want)
		}
	}
}

func NewValueArray() Value { return Obj(NewArray()) }

func TestParseExamples(t *testing.T) {
	for _, c := range []struct{ text, dump string }{
		{`{"b":1,"1":2,"b":3,"__proto__":null}`, `O{"1":N4000000000000000,"b":N4008000000000000,"__proto__":L,}`},
		{`[1E+400,-1e-400,-0]`, `A3["0":N7ff0000000000000,"1":N8000000000000000,"2":N8000000000000000,]`},
		{` "é\/😀" `, `S"\u00e9/\ud83d\ude00"`},
	} {
		v, err := Parse(S(c.text), Undefined)
		if err != nil || Dump(v) != c.dump {
			t.Errorf("%s: got %v %s want %s", c.text, err, Dump(v), c.dump)
		}
	}
}

// A DAG (the same object in two positions) is not a cycle; Src keeps the identity.
func TestSharingIsNotACycle(t *testing.T) {
	f := NewFunction(`function(){}`, func(Value, []Value) Value { return Undefined })
	o := NewObject()
	o.CreateDataProperty(S("m"), Obj(f))
	o.CreateDataProperty(S("v"), Num(1))
	root := NewArray(Obj(o), Obj(o), Obj(f))
	if got := str(t, Obj(root), Undefined, Undefined); got != `[{"v":1},{"v":1},null]` {
		t.Errorf("got %s", got)
	}
	if got, want := Src(Obj(root)), `(function(){var s0=function(){};var s1=({"m":s0,"v":1});return [s1,s1,s0]})()`; got != want {
		t.Errorf("Src: got %s want %s", got, want)
	}
	o.CreateDataProperty(S("self"), Obj(root))
	if got := str(t, Obj(root), Undefined, Undefined); got != "TypeError" {
		t.Errorf("cycle: got %s", got)
	}
}
