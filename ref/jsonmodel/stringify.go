package jsonmodel

import (
	"fmt"
	"strconv"
)

type sstate struct {
	replacerFn *Object
	hasList    bool
	propList   []Str
	gap        Str
	indent     Str
	stack      []*Object
}

// toStringBoxed is ToString applied to a Number or String wrapper object whose toString/valueOf are the
// built-in ones.
func toStringBoxed(o *Object) Str {
	if o.Class == ClsNumber {
		return S(NumberToString(o.Prim.N))
	}
	return o.Prim.S
}

// Stringify is JSON.stringify(value, replacer, space) (ECMA-262 25.5.2). defined=false means the result
// is undefined.
func Stringify(value, replacer, space Value) (res Str, defined bool, err *Throw) {
	defer catch(&err)
	st := &sstate{}
	// 4.
	if replacer.K == KObject {
		if replacer.IsCallable() {
			st.replacerFn = replacer.O
		} else if replacer.O.IsArray() {
			st.hasList = true
			n := replacer.O.LengthOfArrayLike()
			for k := uint32(0); k < n; k++ {
				v := replacer.O.Get(S(strconv.FormatUint(uint64(k), 10)))
				var item Str
				have := false
				switch v.K {
				case KString:
					item, have = v.S, true
				case KNumber:
					item, have = S(NumberToString(v.N)), true
				case KObject:
					if v.O.Class == ClsNumber || v.O.Class == ClsString {
						item, have = toStringBoxed(v.O), true
					}
				}
				if have {
					dup := false
					for _, e := range st.propList {
						if e.Eq(item) {
							dup = true
						}
					}
					if !dup {
						st.propList = append(st.propList, item)
					}
				}
			}
		}
	}
	// 5.-8.
	st.gap = Gap(space)
	// 9.-12.
	wrapper := NewObject()
	wrapper.CreateDataProperty(Str{}, value)
	res, defined = st.property(Str{}, wrapper)
	return res, defined, nil
}

// Gap computes the gap string from the space argument (steps 5-8 of JSON.stringify).
func Gap(space Value) Str {
	// 5.
	if space.K == KObject {
		switch space.O.Class {
		case ClsNumber:
			space = Num(space.O.Prim.N)
		case ClsString:
			space = String(space.O.Prim.S)
		}
	}
	// 6.-8.
	var gap Str
	switch space.K {
	case KNumber:
		n := ToIntegerOrInfinity(space.N)
		if n > 10 {
			n = 10
		}
		for i := 0; i < int(n); i++ {
			gap = append(gap, ' ')
		}
	case KString:
		if len(space.S) <= 10 {
			gap = space.S
		} else {
			gap = space.S[:10]
		}
	}
	return gap
}

// property is SerializeJSONProperty (25.5.2.2).
func (st *sstate) property(key Str, holder *Object) (Str, bool) {
	value := holder.Get(key)
	// 2.
	var toJSON Value
	switch value.K {
	case KObject:
		toJSON = value.O.Get(S("toJSON"))
	case KBigInt:
		toJSON = Undefined // BigInt.prototype has no toJSON in a pristine realm
	}
	if toJSON.IsCallable() {
		value = toJSON.O.real().Call(value, []Value{String(key)})
	}
	// 3.
	if st.replacerFn != nil {
		value = st.replacerFn.real().Call(Obj(holder), []Value{String(key), value})
	}
	// 4.
	if value.K == KObject {
		switch value.O.Class {
		case ClsNumber:
			value = Num(value.O.Prim.N)
		case ClsString:
			value = String(value.O.Prim.S)
		case ClsBoolean, ClsBigInt:
			value = value.O.Prim
		}
	}
	switch value.K {
	case KNull:
		return S("null"), true
	case KBool:
		if value.B {
			return S("true"), true
		}
		return S("false"), true
	case KString:
		return QuoteJSONString(value.S), true
	case KNumber:
		if value.N != value.N || value.N > 1.7976931348623157e308 || value.N < -1.7976931348623157e308 {
			return S("null"), true
		}
		return S(NumberToString(value.N)), true
	case KBigInt:
		throwf("TypeError", "cannot serialise a BigInt")
	case KObject:
		if !value.IsCallable() {
			if value.O.IsArray() {
				return st.array(value.O), true
			}
			return st.object(value.O), true
		}
	}
	return nil, false
}

func (st *sstate) push(o *Object) {
	for _, s := range st.stack {
		if s == o {
			throwf("TypeError", "cyclic structure")
		}
	}
	st.stack = append(st.stack, o)
}

func concat(parts ...Str) Str {
	var r Str
	for _, p := range parts {
		r = append(r, p...)
	}
	return r
}

// object is SerializeJSONObject (25.5.2.5).
func (st *sstate) object(value *Object) Str {
	st.push(value)
	stepback := st.indent
	st.indent = concat(st.indent, st.gap)
	var keys []Str
	if st.hasList {
		keys = st.propList
	} else {
		keys = value.OwnKeys(true)
	}
	var partial []Str
	for _, p := range keys {
		strP, ok := st.property(p, value)
		if ok {
			member := concat(QuoteJSONString(p), S(":"))
			if len(st.gap) > 0 {
				member = append(member, ' ')
			}
			partial = append(partial, concat(member, strP))
		}
	}
	var final Str
	switch {
	case len(partial) == 0:
		final = S("{}")
	case len(st.gap) == 0:
		final = concat(S("{"), join(partial, S(",")), S("}"))
	default:
		sep := concat(S(",\n"), st.indent)
		final = concat(S("{\n"), st.indent, join(partial, sep), S("\n"), stepback, S("}"))
	}
	st.stack = st.stack[:len(st.stack)-1]
	st.indent = stepback
	return final
}

// array is SerializeJSONArray (25.5.2.6).
func (st *sstate) array(value *Object) Str {
	st.push(value)
	stepback := st.indent
	st.indent = concat(st.indent, st.gap)
	var partial []Str
	n := value.LengthOfArrayLike()
	for i := uint32(0); i < n; i++ {
		strP, ok := st.property(S(strconv.FormatUint(uint64(i), 10)), value)
		if !ok {
			strP = S("null")
		}
		partial = append(partial, strP)
	}
	var final Str
	switch {
	case len(partial) == 0:
		final = S("[]")
	case len(st.gap) == 0:
		final = concat(S("["), join(partial, S(",")), S("]"))
	default:
		sep := concat(S(",\n"), st.indent)
		final = concat(S("[\n"), st.indent, join(partial, sep), S("\n"), stepback, S("]"))
	}
	st.stack = st.stack[:len(st.stack)-1]
	st.indent = stepback
	return final
}

func join(parts []Str, sep Str) Str {
	var r Str
	for i, p := range parts {
		if i > 0 {
			r = append(r, sep...)
		}
		r = append(r, p...)
	}
	return r
}

// QuoteJSONString (25.5.2.3).
func QuoteJSONString(s Str) Str {
	r := Str{'"'}
	for i := 0; i < len(s); i++ {
		c := s[i]
		switch c {
		case 0x08:
			r = append(r, '\\', 'b')
		case 0x09:
			r = append(r, '\\', 't')
		case 0x0A:
			r = append(r, '\\', 'n')
		case 0x0C:
			r = append(r, '\\', 'f')
		case 0x0D:
			r = append(r, '\\', 'r')
		case 0x22:
			r = append(r, '\\', '"')
		case 0x5C:
			r = append(r, '\\', '\\')
		default:
			switch {
			case c < 0x20:
				r = append(r, S(fmt.Sprintf("\\u%04x", c))...)
			case c >= 0xD800 && c <= 0xDBFF && i+1 < len(s) && s[i+1] >= 0xDC00 && s[i+1] <= 0xDFFF:
				r = append(r, c, s[i+1]) // a well-formed pair is one code point
				i++
			case c >= 0xD800 && c <= 0xDFFF:
				r = append(r, S(fmt.Sprintf("\\u%04x", c))...)
			default:
				r = append(r, c)
			}
		}
	}
	return append(r, '"')
}
