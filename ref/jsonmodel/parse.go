package jsonmodel

import (
	"strconv"
)

// ---------- ECMA-404 recogniser (push-down automaton, no value construction) ----------

func isWS(c uint16) bool    { return c == 0x20 || c == 0x09 || c == 0x0A || c == 0x0D }
func isDigit(c uint16) bool { return c >= '0' && c <= '9' }
func isHex(c uint16) bool {
	return c >= '0' && c <= '9' || c >= 'a' && c <= 'f' || c >= 'A' && c <= 'F'
}

// scanString: t[i] == '"'; returns the index after the closing quote or -1.
func scanString(t Str, i int) int {
	i++
	for i < len(t) {
		c := t[i]
		switch {
		case c == '"':
			return i + 1
		case c < 0x20:
			return -1
		case c == '\\':
			if i+1 >= len(t) {
				return -1
			}
			switch t[i+1] {
			case '"', '\\', '/', 'b', 'f', 'n', 'r', 't':
				i += 2
			case 'u':
				if i+5 >= len(t) || !isHex(t[i+2]) || !isHex(t[i+3]) || !isHex(t[i+4]) || !isHex(t[i+5]) {
					return -1
				}
				i += 6
			default:
				return -1
			}
		default:
			i++
		}
	}
	return -1
}

// scanNumber: returns the index after the number starting at i, or -1.
func scanNumber(t Str, i int) int {
	if i < len(t) && t[i] == '-' {
		i++
	}
	if i >= len(t) {
		return -1
	}
	if t[i] == '0' {
		i++
	} else if t[i] >= '1' && t[i] <= '9' {
		for i < len(t) && isDigit(t[i]) {
			i++
		}
	} else {
		return -1
	}
	if i < len(t) && t[i] == '.' {
		i++
		if i >= len(t) || !isDigit(t[i]) {
			return -1
		}
		for i < len(t) && isDigit(t[i]) {
			i++
		}
	}
	if i < len(t) && (t[i] == 'e' || t[i] == 'E') {
		i++
		if i < len(t) && (t[i] == '+' || t[i] == '-') {
			i++
		}
		if i >= len(t) || !isDigit(t[i]) {
			return -1
		}
		for i < len(t) && isDigit(t[i]) {
			i++
		}
	}
	return i
}

func hasWord(t Str, i int, w string) bool {
	if i+len(w) > len(t) {
		return false
	}
	for k := 0; k < len(w); k++ {
		if t[i+k] != uint16(w[k]) {
			return false
		}
	}
	return true
}

// Valid reports whether text is a JSON text of the ECMA-404 grammar.
func Valid(t Str) bool {
	const (
		wantValue        = iota // a value must follow
		wantValueOrClose        // just after '[': value or ']'
		wantKeyOrClose          // just after '{': string or '}'
		wantKey                 // after ',' in an object
		wantColon
		afterValue // after a complete value: ',' or the closer of the enclosing container, or the end
	)
	var stack []byte // '[' or '{'
	st := wantValue
	i := 0
	for {
		for i < len(t) && isWS(t[i]) {
			i++
		}
		if i >= len(t) {
			return st == afterValue && len(stack) == 0
		}
		c := t[i]
		switch st {
		case wantValue, wantValueOrClose:
			switch {
			case c == ']' && st == wantValueOrClose:
				stack = stack[:len(stack)-1]
				i++
				st = afterValue
			case c == '[':
				stack = append(stack, '[')
				i++
				st = wantValueOrClose
			case c == '{':
				stack = append(stack, '{')
				i++
				st = wantKeyOrClose
			case c == '"':
				if i = scanString(t, i); i < 0 {
					return false
				}
				st = afterValue
			case c == '-' || isDigit(c):
				if i = scanNumber(t, i); i < 0 {
					return false
				}
				st = afterValue
			case hasWord(t, i, "true"), hasWord(t, i, "null"):
				i += 4
				st = afterValue
			case hasWord(t, i, "false"):
				i += 5
				st = afterValue
			default:
				return false
			}
		case wantKeyOrClose, wantKey:
			switch {
			case c == '}' && st == wantKeyOrClose:
				stack = stack[:len(stack)-1]
				i++
				st = afterValue
			case c == '"':
				if i = scanString(t, i); i < 0 {
					return false
				}
				st = wantColon
			default:
				return false
			}
		case wantColon:
			if c != ':' {
				return false
			}
			i++
			st = wantValue
		case afterValue:
			if len(stack) == 0 {
				return false
			}
			top := stack[len(stack)-1]
			switch {
			case c == ',' && top == '[':
				i++
				st = wantValue
			case c == ',' && top == '{':
				i++
				st = wantKey
			case c == ']' && top == '[', c == '}' && top == '{':
				stack = stack[:len(stack)-1]
				i++
			default:
				return false
			}
		}
	}
}

// ---------- JSON.parse: recursive descent producing the ECMAScript value ----------

type parser struct {
	t Str
	i int
}

func (p *parser) fail(msg string) { throwf("SyntaxError", "%s at %d", msg, p.i) }

func (p *parser) ws() {
	for p.i < len(p.t) && isWS(p.t[p.i]) {
		p.i++
	}
}

func (p *parser) value() Value {
	p.ws()
	if p.i >= len(p.t) {
		p.fail("unexpected end")
	}
	c := p.t[p.i]
	switch {
	case c == '{':
		return p.object()
	case c == '[':
		return p.array()
	case c == '"':
		return String(p.str())
	case c == '-' || isDigit(c):
		return p.number()
	case hasWord(p.t, p.i, "true"):
		p.i += 4
		return True
	case hasWord(p.t, p.i, "false"):
		p.i += 5
		return False
	case hasWord(p.t, p.i, "null"):
		p.i += 4
		return Null
	}
	p.fail("unexpected token")
	return Undefined
}

func (p *parser) number() Value {
	end := scanNumber(p.t, p.i)
	if end < 0 {
		p.fail("bad number")
	}
	b := make([]byte, end-p.i)
	for k := range b {
		b[k] = byte(p.t[p.i+k])
	}
	p.i = end
	// The Number value for the mathematical value of the literal: correctly rounded, ±Infinity beyond the
	// double range, (−)0 below it. strconv reports both through ErrRange but still returns that value.
	f, _ := strconv.ParseFloat(string(b), 64)
	return Num(f)
}

func hexVal(c uint16) uint16 {
	switch {
	case c >= '0' && c <= '9':
		return c - '0'
	case c >= 'a' && c <= 'f':
		return c - 'a' + 10
	}
	return c - 'A' + 10
}

func (p *parser) str() Str {
	end := scanString(p.t, p.i)
	if end < 0 {
		p.fail("bad string")
	}
	res := Str{}
	for i := p.i + 1; i < end-1; i++ {
		c := p.t[i]
		if c != '\\' {
			res = append(res, c)
			continue
		}
		i++
		switch p.t[i] {
		case '"':
			res = append(res, '"')
		case '\\':
			res = append(res, '\\')
		case '/':
			res = append(res, '/')
		case 'b':
			res = append(res, 8)
		case 'f':
			res = append(res, 12)
		case 'n':
			res = append(res, 10)
		case 'r':
			res = append(res, 13)
		case 't':
			res = append(res, 9)
		case 'u':
			res = append(res, hexVal(p.t[i+1])<<12|hexVal(p.t[i+2])<<8|hexVal(p.t[i+3])<<4|hexVal(p.t[i+4]))
			i += 4
		}
	}
	p.i = end
	return res
}

func (p *parser) array() Value {
	p.i++ // [
	a := NewArray()
	p.ws()
	if p.i < len(p.t) && p.t[p.i] == ']' {
		p.i++
		return Obj(a)
	}
	for {
		v := p.value()
		a.CreateDataProperty(S(strconv.Itoa(int(a.Length))), v)
		p.ws()
		if p.i >= len(p.t) {
			p.fail("unexpected end")
		}
		switch p.t[p.i] {
		case ',':
			p.i++
		case ']':
			p.i++
			return Obj(a)
		default:
			p.fail("expected , or ]")
		}
	}
}

func (p *parser) object() Value {
	p.i++ // {
	o := NewObject()
	p.ws()
	if p.i < len(p.t) && p.t[p.i] == '}' {
		p.i++
		return Obj(o)
	}
	for {
		p.ws()
		if p.i >= len(p.t) || p.t[p.i] != '"' {
			p.fail("expected string key")
		}
		k := p.str()
		p.ws()
		if p.i >= len(p.t) || p.t[p.i] != ':' {
			p.fail("expected :")
		}
		p.i++
		v := p.value()
		// CreateDataProperty semantics for every member, "__proto__" included; a duplicate overwrites the
		// value and keeps the position of the first occurrence.
		o.CreateDataProperty(k, v)
		p.ws()
		if p.i >= len(p.t) {
			p.fail("unexpected end")
		}
		switch p.t[p.i] {
		case ',':
			p.i++
		case '}':
			p.i++
			return Obj(o)
		default:
			p.fail("expected , or }")
		}
	}
}

func catch(err **Throw) {
	if x := recover(); x != nil {
		if t, ok := x.(*Throw); ok {
			*err = t
			return
		}
		panic(x)
	}
}

// ParseText parses a complete JSON text.
func ParseText(t Str) (v Value, err *Throw) {
	defer catch(&err)
	p := &parser{t: t}
	v = p.value()
	p.ws()
	if p.i != len(t) {
		p.fail("unexpected token after value")
	}
	return v, nil
}

// Parse is JSON.parse(text, reviver) for a String text (ECMA-262 25.5.1).
func Parse(t Str, reviver Value) (v Value, err *Throw) {
	v, err = ParseText(t)
	if Valid(t) != (err == nil) {
		panic("jsonmodel: recogniser and parser disagree on " + t.Quote())
	}
	if err != nil {
		return Undefined, err
	}
	if !reviver.IsCallable() {
		return v, nil
	}
	defer catch(&err)
	root := NewObject()
	root.CreateDataProperty(Str{}, v)
	return internalize(root, Str{}, reviver.O), nil
}

// internalize is InternalizeJSONProperty (25.5.1.1).
func internalize(holder *Object, name Str, reviver *Object) Value {
	val := holder.Get(name)
	if val.K == KObject {
		if val.O.IsArray() {
			n := val.O.LengthOfArrayLike()
			for i := uint32(0); i < n; i++ {
				prop := S(strconv.FormatUint(uint64(i), 10))
				ne := internalize(val.O, prop, reviver)
				if ne.K == KUndefined {
					val.O.Delete(prop)
				} else {
					val.O.CreateDataProperty(prop, ne)
				}
			}
		} else {
			for _, p := range val.O.OwnKeys(true) {
				ne := internalize(val.O, p, reviver)
				if ne.K == KUndefined {
					val.O.Delete(p)
				} else {
					val.O.CreateDataProperty(p, ne)
				}
			}
		}
	}
	return reviver.real().Call(Obj(holder), []Value{String(name), val})
}

// ScanString returns the index after the JSON string literal starting at t[i] (t[i] must be '"'), or -1.
func ScanString(t Str, i int) int { return scanString(t, i) }

// ScanNumber returns the index after the JSON number starting at t[i], or -1.
func ScanNumber(t Str, i int) int { return scanNumber(t, i) }
