package cfjs

import (
	"fmt"
	"sort"
	"strconv"
)

// ----- values -----

type Value interface{}

type (
	Undef   struct{}
	Num     int
	TypeErr struct{} // a TypeError instance created by the specification's algorithms
	Obj     struct{} // some ordinary object whose identity does not matter
	IterRes struct { // an iterator result object
		Value Value
		Done  bool
	}
)

func isObject(v Value) bool {
	switch v.(type) {
	case Obj, *IterRes, TypeErr:
		return true
	}
	return false
}

// Str mirrors the prelude's str().
func Str(v Value) string {
	switch v := v.(type) {
	case Num:
		return strconv.Itoa(int(v))
	case Undef, nil:
		return "undefined"
	case TypeErr:
		return "TypeError"
	}
	return "object"
}

// ----- completion records -----

type ctype uint8

const (
	cNormal ctype = iota
	cBreak
	cContinue
	cReturn
	cThrow
)

// comp is a Completion Record; v == nil is the "empty" value.
type comp struct {
	t      ctype
	v      Value
	target string
}

func normal(v Value) comp   { return comp{t: cNormal, v: v} }
func throwC(v Value) comp   { return comp{t: cThrow, v: v} }
func (c comp) abrupt() bool { return c.t != cNormal }

// updateEmpty is UpdateEmpty(completionRecord, value).
func updateEmpty(c comp, v Value) comp {
	if c.v == nil {
		c.v = v
	}
	return c
}

// ----- interpreter -----

type frame struct {
	gen *genObj // the generator whose body is being evaluated (nil in ordinary functions / the script)
}

type Interp struct {
	Events []string
	PLog   map[int][]string
	gens   []*genObj
	steps  int
}

// Result is what the specification demands of a program.
type Result struct {
	Events  []string // event log: "<id>" for log(id), "n<id>"/"r<id>" for iterator next/return, "c<id>:<v>" catch entry, "set", "d:<value>:<done>" / "d!<exc>" driver observations
	Outcome string   // "ok:<completion value>" or "throw:<value>"
	PLog    []string // settled Promise.all results, sorted: "<id>:ok" / "<id>:<reason>"
}

type killed struct{}

// Interpret evaluates the program according to ECMA-262.
func Interpret(p *Program) (res Result) {
	in := &Interp{PLog: map[int][]string{}}
	defer in.close()
	var c comp
	switch p.Wrap {
	case "global":
		c = in.list(p.Body, &frame{}, nil)
		if c.t == cNormal && c.v == nil {
			c.v = Undef{}
		}
	case "func":
		c = in.callBody(p.Body, &frame{})
	case "gen":
		g := in.newGen(p.Body)
		calls := p.Calls
		if calls == 0 {
			calls = 8
		}
		in.drive(g, p.Mode, p.At, calls)
		c = normal(Undef{})
	}
	switch c.t {
	case cNormal:
		res.Outcome = "ok:" + Str(c.v)
	case cThrow:
		res.Outcome = "throw:" + Str(c.v)
	default:
		res.Outcome = fmt.Sprintf("invalid-program: completion type %d escapes", c.t)
	}
	res.Events = in.Events
	for id, l := range in.PLog {
		for _, s := range l {
			res.PLog = append(res.PLog, strconv.Itoa(id)+":"+s)
		}
	}
	sort.Strings(res.PLog)
	return
}

func (in *Interp) close() {
	for _, g := range in.gens {
		if g.state == gSuspendedYield {
			g.toGen <- resumeMsg{kind: rKill}
			<-g.fromGen
		}
	}
}

func (in *Interp) log(s string) { in.Events = append(in.Events, s) }

func (in *Interp) drive(g *genObj, mode, at, calls int) {
	for i := 1; i <= calls; i++ {
		var c comp
		switch {
		case i == at+1 && mode == 1:
			c = g.resume(rReturn, Num(77))
		case i == at+1 && mode == 2:
			c = g.resume(rThrow, Num(88))
		default:
			c = g.resume(rNext, Undef{})
		}
		done := false
		if c.t == cThrow {
			in.log("d!" + Str(c.v))
			done = true
		} else {
			r := c.v.(*IterRes)
			in.log("d:" + Str(r.Value) + ":" + strconv.FormatBool(r.Done))
			done = r.Done
		}
		if done && (mode == 0 || i >= at+1) {
			break
		}
	}
}

// callBody evaluates a function body: [[Call]] of an ordinary function.
func (in *Interp) callBody(body []*Node, f *frame) comp {
	c := in.list(body, f, nil)
	switch c.t {
	case cReturn:
		return normal(c.v)
	case cThrow:
		return c
	case cNormal:
		return normal(Undef{})
	}
	panic("cfjs: break/continue escapes a function body")
}

// list evaluates a StatementList.
func (in *Interp) list(l []*Node, f *frame, _ []string) comp {
	var v Value // empty
	for _, s := range l {
		c := in.stmt(s, f)
		c = updateEmpty(c, v)
		if c.abrupt() {
			return c
		}
		v = c.v
	}
	return normal(v)
}

// loopContinues is LoopContinues(completion, labelSet); labelSet = {own label} if any.
func loopContinues(c comp, label string) bool {
	if c.t == cNormal {
		return true
	}
	if c.t != cContinue {
		return false
	}
	if c.target == "" {
		return true
	}
	return label != "" && c.target == label
}

// breakable implements the LabelledEvaluation of a BreakableStatement followed by the LabelledStatement rule for
// the statement's own label.
func breakable(c comp, label string) comp {
	if c.t == cBreak && c.target == "" {
		if c.v == nil {
			return normal(Undef{})
		}
		return normal(c.v)
	}
	if c.t == cBreak && label != "" && c.target == label {
		return normal(c.v)
	}
	return c
}

func (in *Interp) stmt(s *Node, f *frame) comp {
	in.steps++
	if in.steps > 100000 {
		panic("cfjs: step limit")
	}
	switch s.K {
	case Log:
		in.log(strconv.Itoa(s.ID))
		return normal(Num(s.ID))
	case Block, LetBlock:
		return in.list(s.A, f, nil)
	case Try:
		b := in.list(s.A, f, nil)
		c := b
		if s.HasB && b.t == cThrow {
			in.log("c" + strconv.Itoa(s.ID) + ":" + Str(b.v))
			// the catch body is  log(...); B  — an expression statement (value undefined: log returns its argument,
			// the string) followed by B. The value of log("c..") is a string; to keep values numeric the harness'
			// log returns undefined for strings, so the list value starts as undefined.
			c = updateEmpty(in.list(s.B, f, nil), Undef{})
		}
		if s.HasC {
			fc := in.list(s.C, f, nil)
			if fc.t == cNormal {
				fc = c
			}
			return updateEmpty(fc, Undef{})
		}
		return updateEmpty(c, Undef{})
	case Labelled:
		c := in.list(s.A, f, nil)
		if c.t == cBreak && c.target == s.Label {
			return normal(c.v)
		}
		return c
	case For, While, DoWhile:
		var v Value = Undef{}
		for i := 0; i < s.N || s.K == DoWhile && i == 0; i++ {
			c := in.list(s.A, f, nil)
			if !loopContinues(c, s.Label) {
				return breakable(updateEmpty(c, v), s.Label)
			}
			if c.v != nil {
				v = c.v
			}
		}
		return normal(v)
	case ForIn:
		var v Value = Undef{}
		for i := 0; i < 2; i++ {
			c := in.list(s.A, f, nil)
			if !loopContinues(c, s.Label) {
				return breakable(updateEmpty(c, v), s.Label)
			}
			if c.v != nil {
				v = c.v
			}
		}
		return normal(v)
	case ForOf:
		return breakable(in.forOf(s, f), s.Label)
	case Switch:
		// switch (1) { case 0: C  case 1: A  case 2: B }: clause "case 1" matches, then falls through
		var v Value = Undef{}
		for _, l := range [][]*Node{s.A, s.B} {
			c := in.list(l, f, nil)
			if c.v != nil {
				v = c.v
			}
			if c.abrupt() {
				c.v = v // UpdateEmpty(R, V) with V already updated
				return breakable(c, s.Label)
			}
		}
		return normal(v)
	case With:
		return updateEmpty(in.list(s.A, f, nil), Undef{})
	case Break:
		return comp{t: cBreak, target: s.Label}
	case Continue:
		return comp{t: cContinue, target: s.Label}
	case Return:
		return comp{t: cReturn, v: Num(s.ID)}
	case Throw:
		return throwC(Num(s.ID))
	case Yield:
		return f.gen.yield(Num(s.ID), false)
	case YieldStar:
		return in.yieldStar(s, f)
	case Consume:
		c := in.consume(s, f)
		if c.t == cThrow {
			return c
		}
		return normal(nil) // a VariableStatement
	}
	panic("cfjs: unknown node kind " + s.K)
}

// ----- iterators -----

type iterator interface {
	next(v Value) comp                // Call(next, iterator, «v»)
	ret(v Value) (c comp, has bool)   // has == false: GetMethod(iterator, "return") is undefined
	throw(v Value) (c comp, has bool) // likewise for "throw"
}

// getIterator evaluates the iterable operand and GetIterator(obj, sync). Neither can fail in this language.
func (in *Interp) getIterator(it *Iter) iterator {
	if it.Gen {
		return in.newGen(it.Body)
	}
	return &instrIter{in: in, it: it}
}

type instrIter struct {
	in *Interp
	it *Iter
	k  int
}

func (i *instrIter) next(Value) comp {
	i.in.log("n" + strconv.Itoa(i.it.ID))
	i.k++
	if i.it.HasNext && i.k == i.it.At {
		c := i.in.callBody(i.it.Next, &frame{})
		if c.t == cThrow {
			return c
		}
		if _, undef := c.v.(Undef); !undef {
			return c
		}
	}
	if i.k <= i.it.N {
		return normal(&IterRes{Num(i.k), false})
	}
	return normal(&IterRes{Undef{}, true})
}

func (i *instrIter) ret(Value) (comp, bool) {
	if i.it.NoRet {
		return comp{}, false
	}
	i.in.log("r" + strconv.Itoa(i.it.ID))
	if i.it.HasRet {
		c := i.in.callBody(i.it.Ret, &frame{})
		if c.t == cThrow {
			return c, true
		}
		if _, undef := c.v.(Undef); !undef {
			return c, true
		}
	}
	return normal(Obj{}), true
}

func (i *instrIter) throw(Value) (comp, bool) { return comp{}, false }

// iteratorClose is IteratorClose(iteratorRecord, completion).
func iteratorClose(it iterator, completion comp) comp {
	inner, has := it.ret(Undef{})
	if !has {
		return completion
	}
	if completion.t == cThrow {
		return completion
	}
	if inner.t == cThrow {
		return inner
	}
	if !isObject(inner.v) {
		return throwC(TypeErr{})
	}
	return completion
}

// iteratorStep is IteratorStep: (value, done, abrupt completion).
func iteratorStep(it iterator) (Value, bool, *comp) {
	c := it.next(Undef{})
	if c.t == cThrow {
		return nil, false, &c
	}
	r, ok := c.v.(*IterRes)
	if !ok {
		if isObject(c.v) { // an object without "done"/"value": done is falsy, value undefined
			return Undef{}, false, nil
		}
		t := throwC(TypeErr{})
		return nil, false, &t
	}
	if r.Done {
		return nil, true, nil
	}
	return r.Value, false, nil
}

// forOf is ForIn/OfHeadEvaluation + ForIn/OfBodyEvaluation (iterate, sync).
func (in *Interp) forOf(s *Node, f *frame) comp {
	it := in.getIterator(s.It)
	var v Value = Undef{}
	for {
		_, done, ab := iteratorStep(it)
		if ab != nil {
			return *ab
		}
		if done {
			return normal(v)
		}
		c := in.list(s.A, f, nil)
		if !loopContinues(c, s.Label) {
			return iteratorClose(it, updateEmpty(c, v))
		}
		if c.v != nil {
			v = c.v
		}
	}
}

// consume models the built-in consumers. The result is normal(empty) or a throw completion.
func (in *Interp) consume(s *Node, f *frame) comp {
	it := in.getIterator(s.It)
	// exhaust runs the iterator to completion, calling each(v) per element; an abrupt each closes the iterator.
	exhaust := func(each func(v Value) comp) comp {
		for {
			v, done, ab := iteratorStep(it)
			if ab != nil {
				return *ab
			}
			if done {
				return normal(nil)
			}
			if each != nil {
				if c := each(v); c.t == cThrow {
					return iteratorClose(it, c)
				}
			}
		}
	}
	switch s.V {
	case CDestr1, CDestr3:
		n := 1
		if s.V == CDestr3 {
			n = 3
		}
		done := false
		for i := 0; i < n; i++ {
			if !done {
				_, d, ab := iteratorStep(it)
				if ab != nil {
					return *ab // [[Done]] is set to true: no IteratorClose
				}
				done = d
			}
		}
		if !done {
			return iteratorClose(it, normal(nil))
		}
		return normal(nil)
	case CDestrSet:
		_, done, ab := iteratorStep(it)
		if ab != nil {
			return *ab
		}
		in.log("set")
		c := throwC(Num(700))
		if !done {
			return iteratorClose(it, c)
		}
		return c
	case CSpread, CCallSpread, CFrom, CSet:
		return exhaust(nil)
	case CFromMap, CSetSub:
		return exhaust(func(Value) comp { return in.callBody(s.A, &frame{}) })
	case CMap:
		return exhaust(func(Value) comp { return throwC(TypeErr{}) }) // "Iterator value 1 is not an entry object"
	case CPAll, CPAllSub:
		c := exhaust(func(Value) comp {
			if s.V == CPAll {
				return normal(nil)
			}
			r := in.callBody(s.A, &frame{})
			if r.t == cThrow {
				return r
			}
			if _, undef := r.v.(Undef); !undef {
				return throwC(TypeErr{}) // Invoke(7, "then"): undefined is not callable
			}
			return normal(nil)
		})
		if c.t == cThrow {
			in.PLog[s.ID] = append(in.PLog[s.ID], Str(c.v))
		} else {
			in.PLog[s.ID] = append(in.PLog[s.ID], "ok")
		}
		return normal(nil)
	}
	panic("cfjs: unknown consumer")
}

// yieldStar is the evaluation of  yield* expr  (sync generator).
func (in *Interp) yieldStar(s *Node, f *frame) comp {
	it := in.getIterator(s.It)
	received := normal(Undef{})
	for {
		var inner comp
		switch received.t {
		case cNormal:
			inner = it.next(received.v)
			if inner.t == cThrow {
				return inner
			}
		case cThrow:
			c, has := it.throw(received.v)
			if !has {
				// close the iterator, then throw a TypeError
				if cl := iteratorClose(it, normal(nil)); cl.t == cThrow {
					return cl
				}
				return throwC(TypeErr{})
			}
			if c.t == cThrow {
				return c
			}
			inner = c
		case cReturn:
			c, has := it.ret(received.v)
			if !has {
				return received
			}
			if c.t == cThrow {
				return c
			}
			if !isObject(c.v) {
				return throwC(TypeErr{})
			}
			if r, ok := c.v.(*IterRes); ok && r.Done {
				return comp{t: cReturn, v: r.Value}
			}
			if _, ok := c.v.(*IterRes); !ok {
				c.v = &IterRes{Undef{}, false} // plain object: done falsy, value undefined
			}
			received = f.gen.yield(c.v, true)
			continue
		}
		if !isObject(inner.v) {
			return throwC(TypeErr{})
		}
		r, ok := inner.v.(*IterRes)
		if !ok {
			r = &IterRes{Undef{}, false}
		}
		if r.Done {
			return normal(r.Value)
		}
		received = f.gen.yield(r, true)
	}
}

// ----- generators (coroutines on goroutines; exactly one goroutine runs at any time) -----

const (
	gSuspendedStart = iota
	gSuspendedYield
	gExecuting
	gCompleted
)

const (
	rNext = iota
	rThrow
	rReturn
	rKill
)

type resumeMsg struct {
	kind int
	v    Value
}

type genEvent struct {
	yielded bool
	v       Value // yielded: the iterator result object handed to the caller of next()
	final   comp
}

type genObj struct {
	in      *Interp
	body    []*Node
	state   int
	toGen   chan resumeMsg
	fromGen chan genEvent
}

func (in *Interp) newGen(body []*Node) *genObj {
	g := &genObj{in: in, body: body}
	in.gens = append(in.gens, g)
	return g
}

func (g *genObj) next(v Value) comp { return g.resume(rNext, v) }
func (g *genObj) ret(v Value) (comp, bool) {
	return g.resume(rReturn, v), true
}
func (g *genObj) throw(v Value) (comp, bool) { return g.resume(rThrow, v), true }

// resume is GeneratorResume / GeneratorResumeAbrupt; the result is a normal completion holding the iterator
// result object, or a throw completion.
func (g *genObj) resume(kind int, v Value) comp {
	switch g.state {
	case gExecuting:
		return throwC(TypeErr{})
	case gSuspendedStart:
		if kind != rNext {
			g.state = gCompleted
		}
	}
	if g.state == gCompleted {
		switch kind {
		case rNext:
			return normal(&IterRes{Undef{}, true})
		case rReturn:
			return normal(&IterRes{v, true})
		default:
			return throwC(v)
		}
	}
	if g.state == gSuspendedStart {
		g.toGen = make(chan resumeMsg)
		g.fromGen = make(chan genEvent)
		go g.run()
	}
	g.state = gExecuting
	g.toGen <- resumeMsg{kind, v}
	ev := <-g.fromGen
	if ev.yielded {
		g.state = gSuspendedYield
		return normal(ev.v)
	}
	g.state = gCompleted
	switch ev.final.t {
	case cThrow:
		return ev.final
	case cReturn:
		return normal(&IterRes{ev.final.v, true})
	case cNormal:
		return normal(&IterRes{Undef{}, true})
	}
	panic("cfjs: break/continue escapes a generator body")
}

func (g *genObj) run() {
	defer func() {
		if x := recover(); x != nil {
			if _, ok := x.(killed); ok {
				g.fromGen <- genEvent{}
				return
			}
			panic(x)
		}
	}()
	<-g.toGen // the first message is always next()
	c := g.in.list(g.body, &frame{gen: g}, nil)
	g.fromGen <- genEvent{final: c}
}

// yield is GeneratorYield: suspends the body, returns the resumption as a completion
// (normal(v) for next(v), throw for throw(v), return for return(v)).
func (g *genObj) yield(v Value, isResultObject bool) comp {
	if g == nil {
		panic("cfjs: yield outside a generator")
	}
	if !isResultObject {
		v = &IterRes{v, false}
	}
	g.fromGen <- genEvent{yielded: true, v: v}
	m := <-g.toGen
	switch m.kind {
	case rNext:
		return normal(m.v)
	case rThrow:
		return throwC(m.v)
	case rReturn:
		return comp{t: cReturn, v: m.v}
	}
	panic(killed{})
}
