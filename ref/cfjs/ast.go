// Package cfjs is a definitional (tree-walking) interpreter, written directly from the ECMA-262 completion-record
// semantics, for a control-flow mini-language of JavaScript: try/catch/finally, labelled blocks, the five loop
// kinds, switch, with, for-of / destructuring / spread / Array.from / Map / Set / Promise.all / yield* over
// instrumented iterators and generators, generators driven from outside with next/return/throw.
// Programs are Go ASTs (Node); Print renders an AST as JavaScript source, Interpret gives the event log and the
// final completion the specification demands. It does not import the engine under test.
package cfjs

import (
	"fmt"
	"strings"
)

// Statement kinds.
const (
	Log       = "log"       // log(ID);                         value ID
	Block     = "block"     // { A }
	LetBlock  = "let"       // { let z=1; y=function(){return z}; A }
	Try       = "try"       // try { A } [catch (e) { log("c<ID>:"+str(e)); B }] [finally { C }]
	Labelled  = "label"     // Label: { A }
	For       = "for"       // Label: for (var i=0;i<N;i++) { A }      V=1: let + captured closure
	While     = "while"     // var w=0; Label: while (w++<N) { A }
	DoWhile   = "do"        // var d=0; Label: do { A } while (++d<N);
	ForIn     = "forin"     // Label: for (var k in {a:1,b:2}) { A }   V=1: let + captured closure (N is 2)
	ForOf     = "forof"     // Label: for (var x of It) { A }          V=1: let + captured closure
	Switch    = "switch"    // switch (1) { case 0: C  case 1: A  case 2: B }     V=1: case 1 declares a captured let
	With      = "with"      // with (wo) { A }
	Break     = "break"     // break [Label];
	Continue  = "continue"  // continue [Label];
	Return    = "return"    // return ID;
	Throw     = "throw"     // throw ID;
	Yield     = "yield"     // yield ID;
	YieldStar = "yieldstar" // yield* It;
	Consume   = "consume"   // var ... = <built-in consumer V>(It)  (callback body A for the callback variants)
)

// Consumer variants (Node.V of a Consume node).
const (
	CDestr1     = iota // var [a] = It                        closes the iterator after one element
	CDestr3            // var [a,b,c] = It                    exhausts a 2-element iterator (no close)
	CDestrSet          // var _ = ([thrower.x] = It)          the target's setter logs "set" and throws 700
	CSpread            // var t = [...It]
	CCallSpread        // nop(...It)
	CFrom              // Array.from(It)
	CFromMap           // Array.from(It, function(v){ A })
	CMap               // new Map(It)                         items are numbers: TypeError on the first one, iterator closed
	CSet               // new Set(It)
	CSetSub            // new (class extends Set { add(v){ A } })(It)
	CPAll              // Promise.all(It).then(plog ok, plog rejected)
	CPAllSub           // (class extends Promise { static resolve(v){ A; return super.resolve(v) } }).all(It).then(...)
	NConsume
)

var consumeNames = [...]string{"destr1", "destr3", "destrSet", "spread", "callSpread", "Array.from", "Array.from+map", "Map", "Set", "SetSub.add", "Promise.all", "PromiseSub.resolve"}

func ConsumeName(v int) string { return consumeNames[v] }

type Node struct {
	K     string  `json:"k"`
	ID    int     `json:"id,omitempty"`
	Label string  `json:"l,omitempty"`
	V     int     `json:"v,omitempty"`
	N     int     `json:"n,omitempty"` // iterations of for/while/do
	A     []*Node `json:"a,omitempty"`
	B     []*Node `json:"b,omitempty"`
	C     []*Node `json:"c,omitempty"`
	HasB  bool    `json:"hb,omitempty"` // catch clause present
	HasC  bool    `json:"hc,omitempty"` // finally clause present
	It    *Iter   `json:"it,omitempty"`
}

// Iter describes an iterable operand: an instrumented iterator mk(ID, N, next-body, return-body) which logs
// "n<ID>" / "r<ID>" on every next() / return() call and yields 1..N, or a generator object (function*(){Body})().
type Iter struct {
	ID      int     `json:"id,omitempty"`
	Gen     bool    `json:"gen,omitempty"`
	N       int     `json:"n,omitempty"`
	At      int     `json:"at,omitempty"`   // ordinal of the next() call that runs Next
	Next    []*Node `json:"next,omitempty"` // function body run inside the At-th next(); "return v" makes next() return v
	HasNext bool    `json:"hn,omitempty"`
	Ret     []*Node `json:"ret,omitempty"` // function body run inside return(); "return v" makes return() return v
	HasRet  bool    `json:"hr,omitempty"`
	NoRet   bool    `json:"noret,omitempty"` // the iterator has no return method
	Body    []*Node `json:"body,omitempty"`  // generator body
}

// Program is a complete test program.
type Program struct {
	Wrap  string  `json:"wrap"`         // "global" | "func" | "gen"
	Mode  int     `json:"mode"`         // gen: 0 drain with next(), 1 return(77) after At suspensions, 2 throw(88) after At suspensions
	At    int     `json:"at,omitempty"` // gen: number of next() calls before the return()/throw()
	Body  []*Node `json:"body"`
	Calls int     `json:"calls,omitempty"` // gen: maximal number of driver calls (default 8)
}

// Number assigns static ids 1,2,3,... in print order to every node and iterator.
func (p *Program) Number() {
	n := 0
	numberList(p.Body, &n)
}

func numberList(l []*Node, n *int) {
	for _, s := range l {
		*n++
		s.ID = *n
		if s.It != nil {
			*n++
			s.It.ID = *n
			numberList(s.It.Next, n)
			numberList(s.It.Ret, n)
			numberList(s.It.Body, n)
		}
		numberList(s.A, n)
		numberList(s.B, n)
		numberList(s.C, n)
	}
}

type printer struct {
	sb strings.Builder
}

func (p *printer) f(format string, a ...interface{}) { fmt.Fprintf(&p.sb, format, a...) }

// Print renders the program as a JavaScript script that relies on the prelude helpers
// log, str, mk, nop, wo, thrower, plog, drive.
func (p *Program) Print() string {
	pr := &printer{}
	switch p.Wrap {
	case "global":
		pr.list(p.Body)
	case "func":
		pr.f("(function(){\n")
		pr.list(p.Body)
		pr.f("})();\n")
	case "gen":
		pr.f("drive((function*(){\n")
		pr.list(p.Body)
		calls := p.Calls
		if calls == 0 {
			calls = 8
		}
		pr.f("})(), %d, %d, %d);\n", p.Mode, p.At, calls)
	}
	return pr.sb.String()
}

func PrintList(l []*Node) string {
	pr := &printer{}
	pr.list(l)
	return pr.sb.String()
}

func (p *printer) list(l []*Node) {
	for _, s := range l {
		p.stmt(s)
	}
}

func lbl(s *Node) string {
	if s.Label != "" {
		return s.Label + ": "
	}
	return ""
}

func (p *printer) stmt(s *Node) {
	switch s.K {
	case Log:
		p.f("log(%d);\n", s.ID)
	case Block:
		p.f("{\n")
		p.list(s.A)
		p.f("}\n")
	case LetBlock:
		p.f("{ let z%d = 1, y%d = function(){ return z%d };\n", s.ID, s.ID, s.ID)
		p.list(s.A)
		p.f("}\n")
	case Try:
		p.f("try {\n")
		p.list(s.A)
		p.f("}")
		if s.HasB {
			p.f(" catch (e) { log(\"c%d:\"+str(e));\n", s.ID)
			p.list(s.B)
			p.f("}")
		}
		if s.HasC {
			p.f(" finally {\n")
			p.list(s.C)
			p.f("}")
		}
		p.f("\n")
	case Labelled:
		p.f("%s: {\n", s.Label)
		p.list(s.A)
		p.f("}\n")
	case For:
		if s.V == 1 {
			p.f("%sfor (let i%d = 0; i%d < %d; i%d++) { let y%d = function(){ return i%d };\n", lbl(s), s.ID, s.ID, s.N, s.ID, s.ID, s.ID)
		} else {
			p.f("%sfor (var i%d = 0; i%d < %d; i%d++) {\n", lbl(s), s.ID, s.ID, s.N, s.ID)
		}
		p.list(s.A)
		p.f("}\n")
	case While:
		p.f("var w%d = 0; %swhile (w%d++ < %d) {\n", s.ID, lbl(s), s.ID, s.N)
		p.list(s.A)
		p.f("}\n")
	case DoWhile:
		p.f("var d%d = 0; %sdo {\n", s.ID, lbl(s))
		p.list(s.A)
		p.f("} while (++d%d < %d);\n", s.ID, s.N)
	case ForIn:
		if s.V == 1 {
			p.f("%sfor (let k%d in {a:1,b:2}) { let y%d = function(){ return k%d };\n", lbl(s), s.ID, s.ID, s.ID)
		} else {
			p.f("%sfor (var k%d in {a:1,b:2}) {\n", lbl(s), s.ID)
		}
		p.list(s.A)
		p.f("}\n")
	case ForOf:
		if s.V == 1 {
			p.f("%sfor (let x%d of ", lbl(s), s.ID)
			p.iter(s.It)
			p.f(") { let y%d = function(){ return x%d };\n", s.ID, s.ID)
		} else {
			p.f("%sfor (var x%d of ", lbl(s), s.ID)
			p.iter(s.It)
			p.f(") {\n")
		}
		p.list(s.A)
		p.f("}\n")
	case Switch:
		p.f("%sswitch (1) {\ncase 0:\n", lbl(s))
		p.list(s.C)
		p.f("case 1:\n")
		if s.V == 1 {
			p.f("let q%d = 1, y%d = function(){ return q%d };\n", s.ID, s.ID, s.ID)
		}
		p.list(s.A)
		p.f("case 2:\n")
		p.list(s.B)
		p.f("}\n")
	case With:
		p.f("with (wo) {\n")
		p.list(s.A)
		p.f("}\n")
	case Break:
		if s.Label != "" {
			p.f("break %s;\n", s.Label)
		} else {
			p.f("break;\n")
		}
	case Continue:
		if s.Label != "" {
			p.f("continue %s;\n", s.Label)
		} else {
			p.f("continue;\n")
		}
	case Return:
		p.f("return %d;\n", s.ID)
	case Throw:
		p.f("throw %d;\n", s.ID)
	case Yield:
		p.f("yield %d;\n", s.ID)
	case YieldStar:
		p.f("yield* ")
		p.iter(s.It)
		p.f(";\n")
	case Consume:
		p.consume(s)
	default:
		panic("cfjs: unknown node kind " + s.K)
	}
}

func (p *printer) consume(s *Node) {
	switch s.V {
	case CDestr1:
		p.f("var [a%d] = ", s.ID)
		p.iter(s.It)
		p.f(";\n")
	case CDestr3:
		p.f("var [a%d, b%d, c%d] = ", s.ID, s.ID, s.ID)
		p.iter(s.It)
		p.f(";\n")
	case CDestrSet:
		p.f("var t%d = ([thrower.x] = ", s.ID)
		p.iter(s.It)
		p.f(");\n")
	case CSpread:
		p.f("var t%d = [...", s.ID)
		p.iter(s.It)
		p.f("];\n")
	case CCallSpread:
		p.f("var t%d = nop(...", s.ID)
		p.iter(s.It)
		p.f(");\n")
	case CFrom:
		p.f("var t%d = Array.from(", s.ID)
		p.iter(s.It)
		p.f(");\n")
	case CFromMap:
		p.f("var t%d = Array.from(", s.ID)
		p.iter(s.It)
		p.f(", function(v){\n")
		p.list(s.A)
		p.f("});\n")
	case CMap:
		p.f("var t%d = new Map(", s.ID)
		p.iter(s.It)
		p.f(");\n")
	case CSet:
		p.f("var t%d = new Set(", s.ID)
		p.iter(s.It)
		p.f(");\n")
	case CSetSub:
		p.f("var t%d = new (class extends Set { add(v){\n", s.ID)
		p.list(s.A)
		p.f("} })(")
		p.iter(s.It)
		p.f(");\n")
	case CPAll:
		p.f("var t%d = Promise.all(", s.ID)
		p.iter(s.It)
		p.f(").then(function(){ plog(%d, \"ok\") }, function(e){ plog(%d, str(e)) });\n", s.ID, s.ID)
	case CPAllSub:
		p.f("var t%d = (class extends Promise { static resolve(v){\n", s.ID)
		p.list(s.A)
		p.f("return super.resolve(v) } }).all(")
		p.iter(s.It)
		p.f(").then(function(){ plog(%d, \"ok\") }, function(e){ plog(%d, str(e)) });\n", s.ID, s.ID)
	default:
		panic("cfjs: unknown consumer")
	}
}

func (p *printer) iter(it *Iter) {
	if it.Gen {
		p.f("(function*(){\n")
		p.list(it.Body)
		p.f("})()")
		return
	}
	p.f("mk(%d, %d, ", it.ID, it.N)
	if it.HasNext {
		p.f("function(k){ if (k === %d) {\n", it.At)
		p.list(it.Next)
		p.f("} }")
	} else {
		p.f("null")
	}
	p.f(", ")
	switch {
	case it.NoRet:
		p.f("0")
	case it.HasRet:
		p.f("function(){\n")
		p.list(it.Ret)
		p.f("}")
	default:
		p.f("null")
	}
	p.f(")")
}

// Prelude is the JavaScript side of the helpers (log and plog are supplied natively by the harness, mk
// optionally). mk's next/return bodies are run through nested closures nx / rt: a non-undefined result of the
// closure becomes the result of the method.
const Prelude = `
function str(v) {
	if (typeof v === "number") return "" + v;
	if (v === undefined) return "undefined";
	if (v instanceof TypeError) return "TypeError";
	if (v instanceof Error) return "" + v.name;
	return typeof v;
}
function nop() {}
var wo = {};
var thrower = { set x(v) { log("set"); throw 700; } };
function drive(g, mode, at, calls) {
	for (var i = 1; i <= calls; i++) {
		var r, thrown = false;
		try {
			if (i === at + 1 && mode === 1) r = g.return(77);
			else if (i === at + 1 && mode === 2) r = g.throw(88);
			else r = g.next();
		} catch (e) {
			thrown = true;
			log("d!" + str(e));
		}
		if (!thrown) log("d:" + str(r.value) + ":" + !!r.done);
		if ((thrown || r.done) && (mode === 0 || i >= at + 1)) break;
	}
}
`

// PreludeMk is the JavaScript implementation of the instrumented iterator.
const PreludeMk = `
function mk(id, n, nx, rt) {
	var k = 0;
	var it = {
		next: function next() {
			log("n" + id);
			k++;
			if (nx) { var r = nx(k); if (r !== undefined) return r; }
			return k <= n ? { value: k, done: false } : { value: undefined, done: true };
		}
	};
	it[Symbol.iterator] = function() { return it; };
	if (rt !== 0) it["return"] = function ret() {
		log("r" + id);
		if (rt) { var r = rt(); if (r !== undefined) return r; }
		return {};
	};
	return it;
}
`
