// Package shapes is a catalogue of small instrumented JavaScript program shapes shared by the checks that
// inject faults / interrupts at every position of an execution (C03, C15). Every observable step of a shape
// calls the host function log(tag); catch blocks, finally blocks and iterator return() methods log tags that
// start with "catch", "finally" and "ret" so that oracles can tell cleanup code from ordinary code.
package shapes

import (
	"fmt"

	"github.com/dop251/goja"
)

type Shape struct {
	Name string
	// Src defines function main() (and helpers). It is run once per runtime as setup; main() is the entry.
	Src string
}

// Env is a runtime prepared with the host functions and all shapes' setup code.
type Env struct {
	R   *goja.Runtime
	Log []string
	// OnLog, if set, is called after each log entry is appended.
	OnLog func(tag string)
	// OnNative, if set, is called at the start of every host native (callback, runNested, hostGet, ...).
	OnNative func(name string)
	mains    map[string]goja.Callable
	extra    map[string]*goja.Program
}

// AddShape loads one more shape into this runtime only (the shared Catalogue stays unchanged).
func (e *Env) AddShape(s Shape) {
	if _, err := e.R.RunString(s.Src); err != nil {
		panic(fmt.Sprintf("shape %s setup: %v", s.Name, err))
	}
	if _, err := e.R.RunString("var main_" + s.Name + " = main;"); err != nil {
		panic(err)
	}
	fn, _ := goja.AssertFunction(e.R.Get("main_" + s.Name))
	e.mains[s.Name] = fn
	if e.extra == nil {
		e.extra = map[string]*goja.Program{}
	}
	e.extra["run/"+s.Name] = goja.MustCompile("run_"+s.Name+".js", "main_"+s.Name+"()", false)
	e.extra["nested/"+s.Name] = goja.MustCompile("nested_"+s.Name+".js", "callback(main_"+s.Name+")", false)
}

var Catalogue = []Shape{
	{"loop", `function main(){ var s=0; for (var i=0;i<3;i++){ log('b'+i); s+=i } return s }`},
	{"tryfinally", `function main(){ try { try { log('t1') } finally { log('finally1') } log('t2'); try { throw 1 } catch(e) { log('catch1') } finally { log('finally2') } } catch (e) { log('catch2') } finally { log('finally3') } return 'tf' }`},
	{"throwcatch", `function thrower(n){ if (n==0) throw new Error('x'); try { return thrower(n-1) } finally { log('finally-th'+n) } }
function main(){ try { thrower(2) } catch(e) { log('catch-tc'); } finally { log('finally-tc') } return 'tc' }`},
	{"forof", `function mkiter(tag,n){ return { [Symbol.iterator](){ var i=0; return { next(){ log(tag+'next'+i); return i<n?{value:i++,done:false}:{done:true} }, return(){ log('ret'+tag); return {} } } } } }
function main(){ for (var v of mkiter('a',3)) { log('body'+v); if (v==1) break } return 'fo' }`},
	{"forofnested", `function main(){ L: for (var v of mkiter('o',2)) { for (var w of mkiter('i',2)) { try { log('in'+v+w); if (w==1) continue L } finally { log('finally-fn') } } } return 'fon' }`},
	{"destruct", `function main(){ var [a,b] = mkiter('d',5); log('got'+a+b); var [...r] = mkiter('e',2); log('len'+r.length); return 'de' }`},
	{"spread", `function main(){ var a=[...mkiter('s',2), ...mkiter('t',1)]; log('sp'+a.length); return Math.max(...mkiter('m',2)) }`},
	{"arrayfrom", `function main(){ var a=Array.from(mkiter('f',3), function(x){ log('map'+x); return x*2 }); var m=new Map([[1,2]]); new Set(mkiter('g',2)); log('af'+a.length); return 'af' }`},
	{"generator", `function* gen(){ try { log('g1'); var x = yield 1; log('g2'+x); yield 2; log('g3') } finally { log('finally-gen') } }
function main(){ var it=gen(); log('n'+it.next().value); log('n'+it.next('v').value); log('n'+it.next().done); return 'gn' }`},
	{"genreturn", `function main(){ var it=gen(); it.next(); log('r'+it.return(7).value); var it2=gen(); it2.next(); try { it2.throw(new Error('z')) } catch(e) { log('catch-gr') } return 'gr' }`},
	{"yieldstar", `function* outer(){ log('o1'); var r = yield* inner(); log('o2'+r); yield* mkiter('y',2) }
function* inner(){ try { yield 'i1'; yield 'i2'; return 'ir' } finally { log('finally-inner') } }
function main(){ var n=0; for (var v of outer()) { log('ys'+v); if (++n==4) break } return 'ys' }`},
	{"async", `async function af1(){ log('a1'); await 1; log('a2'); try { await null; log('a3') } finally { log('finally-async') } return 'ar' }
function main(){ af1().then(function(v){ log('then'+v) }); Promise.resolve().then(function(){ log('j1') }).then(function(){ log('j2') }); log('sync-end'); return 'as' }`},
	{"asyncreject", `async function af2(){ try { await Promise.reject(new Error('rj')); } catch(e) { log('catch-async') } finally { log('finally-ar') } }
function main(){ af2(); new Promise(function(res){ log('exec'); res({ then(r){ log('thenable'); r(5) } }) }).then(function(v){ log('tv'+v) }); return 'arj' }`},
	{"getter", `var go = { get g(){ log('getter'); return 1 }, set g(v){ log('setter') } };
function main(){ var s = go.g; go.g = 2; log('after'); return s }`},
	{"sort", `function main(){ var a=[3,1,2].sort(function(a,b){ log('cmp'); return a-b }); log('sorted'+a.join()); return 'so' }`},
	{"callbacks", `function main(){ [1,2].forEach(function(x){ log('fe'+x) }); var m=[1,2].map(function(x){ log('mp'+x); return x }); 'ab'.replace(/a/g, function(){ log('rp'); return 'c' }); new Map([[1,2]]).forEach(function(){ log('mf') }); JSON.stringify({a:1,toJSON(){ log('tojson'); return 1 }}); return 'cb' }`},
	{"coerce", `function main(){ var o={valueOf(){ log('valueOf'); return 1 }, toString(){ log('toString'); return 's' }}; var x = o+1; var y = ''+o; var z = [o]+''; log('co'+x); return ` + "`${o}`" + ` }`},
	{"ladder", `function main(){ try { return callback(function(){ log('l1'); try { return callback(function(){ log('l2'); return 'lad' }) } finally { log('finally-l1') } }) } finally { log('finally-l0') } }`},
	{"nestedrun", `function main(){ try { log('nr0'); var v = runNested("log('nr1'); try { log('nr2') } finally { log('finally-nr') } 'nrv'"); log('nr3'); return v } finally { log('finally-nr0') } }`},
	{"classfield", `class CF { f = (log('field'), 1); static s = (log('static'), 2); constructor(){ log('ctor') } m(){ log('m'); return this.f } }
function main(){ try { return new CF().m() } finally { log('finally-cf') } }`},
	{"tagged", `function tag(s, v){ log('tag'+s.length); return v }
function main(){ var x = tag` + "`a${(log('subst'),1)}b`" + `; log('tg'); return x }`},
	{"eval", `function main(){ var loc=1; try { eval("log('ev1'); var ev=2; try { log('ev2') } finally { log('finally-ev') }"); log('ev3'+ev); return (0,eval)("log('iev'); 3") } finally { log('finally-eval') } }`},
	{"with", `function main(){ var o={p:1}; try { with(o){ log('w'+p); for (var i=0;i<2;i++){ try { if (i==0) continue; log('w2') } finally { log('finally-w') } } } } finally { log('finally-with') } return 'wi' }`},
	{"switch", `function main(){ L: for (var i=0;i<3;i++){ switch(i){ case 0: log('s0'); continue L; case 1: try { log('s1'); break } finally { log('finally-sw') } default: log('sd'); break L } log('post'+i) } return 'sw' }`},
	{"proxy", `function main(){ var p=new Proxy({}, { get(t,k){ log('trap-get'); return 1 }, has(t,k){ log('trap-has'); return true }, ownKeys(){ log('trap-keys'); return [] } }); var x=p.a; ('a' in p); Object.keys(p); log('px'); return x }`},
	{"bindcall", `function target(a){ log('target'+a); return a }
function main(){ var b=target.bind(null,1); b(); target.call(null,2); Reflect.apply(target,null,[3]); new (function K(){ log('ctorK') })(); return 'bc' }`},
	{"hostget", `var hg = { get prop(){ log('hg-getter'); try { return 5 } finally { log('finally-hg') } } };
function main(){ log('hg0'); var v = hostGet(hg, 'prop'); log('hg1'); return v }`},
	{"hostforof", `function main(){ log('hf0'); var n = hostForOf(mkiter('h',2)); log('hf1'+n); return n }`},
	{"thrownative", `function main(){ try { log('tn0'); hostThrow('boom') } catch(e) { log('catch-tn'+e) } finally { log('finally-tn') } try { null.x } catch(e) { log('catch-null') } return 'tn' }`},
	{"deep", `function rec(n){ if (n==0) { log('bottom'); return 0 } try { return 1+rec(n-1) } finally { if (n%4==0) log('finally-rec'+n) } }
function main(){ return rec(12) }`},
}

// New creates a runtime with the host functions and the whole catalogue loaded.
func New() *Env {
	e := &Env{R: goja.New(), mains: map[string]goja.Callable{}}
	r := e.R
	nat := func(name string) {
		if e.OnNative != nil {
			e.OnNative(name)
		}
	}
	r.Set("log", func(call goja.FunctionCall) goja.Value {
		tag := call.Argument(0).String()
		e.Log = append(e.Log, tag)
		if e.OnLog != nil {
			e.OnLog(tag)
		}
		return goja.Undefined()
	})
	// callback(fn): a Go native that calls back into script through a Callable and propagates errors the documented way.
	r.Set("callback", func(call goja.FunctionCall) goja.Value {
		nat("callback")
		fn, ok := goja.AssertFunction(call.Argument(0))
		if !ok {
			panic(r.NewTypeError("not a function"))
		}
		v, err := fn(goja.Undefined())
		if err != nil {
			panic(err)
		}
		return v
	})
	r.Set("runNested", func(call goja.FunctionCall) goja.Value {
		nat("runNested")
		v, err := r.RunString(call.Argument(0).String())
		if err != nil {
			panic(err)
		}
		return v
	})
	r.Set("hostGet", func(call goja.FunctionCall) goja.Value {
		nat("hostGet")
		return call.Argument(0).ToObject(r).Get(call.Argument(1).String())
	})
	r.Set("hostForOf", func(call goja.FunctionCall) goja.Value {
		nat("hostForOf")
		n := 0
		r.ForOf(call.Argument(0), func(v goja.Value) bool { n++; return true })
		return r.ToValue(n)
	})
	r.Set("hostThrow", func(call goja.FunctionCall) goja.Value {
		nat("hostThrow")
		panic(r.ToValue(call.Argument(0).String()))
	})
	for _, s := range Catalogue {
		if _, err := r.RunString(s.Src); err != nil {
			panic(fmt.Sprintf("shape %s setup: %v", s.Name, err))
		}
		// each shape's main is saved under its own name so that later shapes can redefine main
		if _, err := r.RunString("var main_" + s.Name + " = main;"); err != nil {
			panic(err)
		}
		fn, _ := goja.AssertFunction(r.Get("main_" + s.Name))
		e.mains[s.Name] = fn
	}
	return e
}

// Entry kinds: how control enters the runtime from Go.
var Entries = []string{"run", "call", "nested"}

var entryPrograms = map[string]*goja.Program{}

func init() {
	for _, s := range Catalogue {
		entryPrograms["run/"+s.Name] = goja.MustCompile("run_"+s.Name+".js", "main_"+s.Name+"()", false)
		entryPrograms["nested/"+s.Name] = goja.MustCompile("nested_"+s.Name+".js", "callback(main_"+s.Name+")", false)
	}
}

// Enter runs shape name through the given entry kind and returns what the host sees.
func (e *Env) Enter(entry, name string) (goja.Value, error) {
	switch entry {
	case "run", "nested":
		if p, ok := e.extra[entry+"/"+name]; ok {
			return e.R.RunProgram(p)
		}
		return e.R.RunProgram(entryPrograms[entry+"/"+name])
	case "call":
		return e.mains[name](goja.Undefined())
	}
	panic("bad entry " + entry)
}
