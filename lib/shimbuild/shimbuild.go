// Package shimbuild rebuilds harness commands of module verif with goja source files rewritten (through
// `go build -overlay`, /repo untouched) so that their "sync" / "sync/atomic" imports go through verif/lib/shim.
package shimbuild

import (
	"encoding/json"
	"fmt"
	"os"
	"os/exec"
	"path/filepath"
	"strings"

	"verif/core"
)

// RepoRoot is the goja checkout the check was built against.
func RepoRoot() string {
	if v := os.Getenv("VERIF_REPO"); v != "" {
		return v
	}
	return "/repo"
}

// BuildWithShim rebuilds pkg (a main package of module verif) with the listed goja source files rewritten so that
// their "sync" / "sync/atomic" imports go through verif/lib/shim. The rewrite is generated from the CURRENT source.
func BuildWithShim(name string, files []string, pkgs []string, extraArgs ...string) (bindir string, err error) {
	dir := filepath.Join(core.Root, ".build", "overlay-"+name)
	os.MkdirAll(dir, 0o755)
	replace := map[string]string{}
	for _, f := range files {
		src := filepath.Join(RepoRoot(), f)
		data, err := os.ReadFile(src)
		if err != nil {
			return "", err
		}
		s := string(data)
		n := 0
		if strings.Contains(s, "\t\"sync\"\n") {
			s = strings.Replace(s, "\t\"sync\"\n", "\tsync \"verif/lib/shim/vsync\"\n", 1)
			n++
		}
		if strings.Contains(s, "\t\"sync/atomic\"\n") {
			s = strings.Replace(s, "\t\"sync/atomic\"\n", "\tatomic \"verif/lib/shim/vatomic\"\n", 1)
			n++
		}
		if n == 0 {
			return "", fmt.Errorf("%s imports neither sync nor sync/atomic: nothing to instrument", f)
		}
		dst := filepath.Join(dir, strings.ReplaceAll(f, "/", "_"))
		if err := os.WriteFile(dst, []byte(s), 0o644); err != nil {
			return "", err
		}
		replace[src] = dst
	}
	ov, _ := json.Marshal(map[string]interface{}{"Replace": replace})
	ovf := filepath.Join(dir, "overlay.json")
	os.WriteFile(ovf, ov, 0o644)
	bindir = filepath.Join(core.Root, ".build", name+"."+fmt.Sprint(os.Getpid()))
	os.MkdirAll(bindir, 0o755)
	args := []string{"build", "-overlay", ovf, "-tags", "verif"}
	if mf := os.Getenv("VERIF_MODFILE"); mf != "" {
		args = append(args, "-modfile="+mf)
	}
	args = append(args, extraArgs...)
	args = append(args, "-o", bindir+"/")
	args = append(args, pkgs...)
	cmd := exec.Command("go", args...)
	cmd.Dir = core.Root
	out, err := cmd.CombinedOutput()
	if err != nil {
		os.RemoveAll(bindir)
		return "", fmt.Errorf("go %s: %v\n%s", strings.Join(args, " "), err, out)
	}
	return bindir, nil
}
