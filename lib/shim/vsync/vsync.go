// Package vsync replaces "sync" in goja source files that are rebuilt through a `go build -overlay` import
// rewrite: while an execution of the cooperative scheduler (verif/lib/sched) is active, Lock/Unlock are
// scheduling points; otherwise the real mutex is used.
package vsync

import (
	"sync"
	"sync/atomic"

	"verif/lib/sched"
)

type Mutex struct {
	real sync.Mutex
	m    sched.Mutex
}

// Under the scheduler the model mutex decides who may proceed (waiting is visible to the scheduler); the real
// mutex is taken as well — it never blocks then — so that the race detector sees the true lock ordering.
func (m *Mutex) Lock() {
	if x := sched.Active(); x != nil {
		x.Lock(&m.m)
	}
	m.real.Lock()
}

func (m *Mutex) Unlock() {
	if x := sched.Active(); x != nil {
		x.UnlockPoint(&m.m)
		m.real.Unlock()
		x.UnlockDone(&m.m)
		return
	}
	m.real.Unlock()
}

// Once is a sync.Once whose waiting is visible to the scheduler (built on the Mutex above).
type Once struct {
	done uint32
	m    Mutex
}

func (o *Once) Do(f func()) {
	if atomic.LoadUint32(&o.done) == 0 {
		o.doSlow(f)
	}
}

func (o *Once) doSlow(f func()) {
	o.m.Lock()
	defer o.m.Unlock()
	if o.done == 0 {
		defer atomic.StoreUint32(&o.done, 1)
		f()
	}
}

type WaitGroup = sync.WaitGroup
type RWMutex = sync.RWMutex
type Pool = sync.Pool
type Map = sync.Map
