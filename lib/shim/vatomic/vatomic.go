// Package vatomic replaces "sync/atomic" in goja source files rebuilt through an overlay import rewrite: every
// atomic operation is a scheduling point of the cooperative scheduler (and then performed for real).
package vatomic

import (
	"sync/atomic"

	"verif/lib/sched"
)

func point(op string, p interface{}) {
	if x := sched.Active(); x != nil {
		x.Point(op, p)
	}
}

func done(op string, p, v interface{}) {
	if x := sched.Active(); x != nil {
		x.Done(op, p, v)
	}
}

func LoadUint32(p *uint32) uint32 {
	point("load", p)
	v := atomic.LoadUint32(p)
	done("load", p, v)
	return v
}
func StoreUint32(p *uint32, v uint32) {
	point("store", p)
	atomic.StoreUint32(p, v)
	done("store", p, v)
}
func LoadInt32(p *int32) int32 {
	point("load", p)
	v := atomic.LoadInt32(p)
	done("load", p, v)
	return v
}
func StoreInt32(p *int32, v int32) {
	point("store", p)
	atomic.StoreInt32(p, v)
	done("store", p, v)
}
func AddInt32(p *int32, d int32) int32 { point("add", p); return atomic.AddInt32(p, d) }
func LoadInt64(p *int64) int64         { point("load", p); return atomic.LoadInt64(p) }
func StoreInt64(p *int64, v int64)     { point("store", p); atomic.StoreInt64(p, v) }
func AddInt64(p *int64, d int64) int64 { point("add", p); return atomic.AddInt64(p, d) }
func CompareAndSwapInt32(p *int32, o, n int32) bool {
	point("cas", p)
	return atomic.CompareAndSwapInt32(p, o, n)
}
func CompareAndSwapUint32(p *uint32, o, n uint32) bool {
	point("cas", p)
	return atomic.CompareAndSwapUint32(p, o, n)
}
