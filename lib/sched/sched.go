// Package sched is engine E3: a cooperative scheduler for real goroutines plus a stateless DFS explorer with an
// iterative preemption bound. Exactly one controlled goroutine runs at a time; every hooked operation calls
// Point() (or Lock/Unlock) BEFORE it takes effect and thereby offers the scheduler a chance to switch.
//
// The explorer follows the scheme of CHESS: an execution is a sequence of choices; run(prefix) replays the prefix
// (a divergence is a hard error) and then always takes choice 0 (= keep running the current thread if it is still
// enabled, else the lowest enabled id); alternatives at every point after the prefix are explored recursively as
// long as the number of preemptions stays within the bound.
package sched

import (
	"fmt"
	"sync"
	"syscall"
	"unsafe"
)

type Event struct {
	Thread int
	Op     string
	Obj    interface{}
	Val    interface{}
}

type thread struct {
	id      int
	wake    chan struct{}
	pipe    [2]int // raw mode: hand-off through pipe system calls, invisible to the race detector
	done    bool
	blocked *Mutex
	started bool
}

// Raw selects hand-offs through raw pipe system calls instead of channels. Channel hand-offs are happens-before
// edges that would hide every data race from the Go race detector; raw hand-offs are not, so a binary built with
// -race reports conflicting accesses that are not ordered by the code's OWN synchronisation, deterministically
// for each explored schedule. (All functions of this package are //go:norace: the scheduler's own state is
// handed over without detector-visible synchronisation.)
var Raw bool

// CurrentPrefix is the choice prefix of the execution Explore is about to start (default choices follow it).
var CurrentPrefix []int

//go:norace
func (t *thread) signal() {
	if Raw {
		b := [1]byte{1}
		for {
			_, _, e := syscall.Syscall(syscall.SYS_WRITE, uintptr(t.pipe[1]), uintptr(unsafe.Pointer(&b[0])), 1)
			if e != syscall.EINTR {
				return
			}
		}
	}
	t.wake <- struct{}{}
}

//go:norace
func (t *thread) park() {
	if Raw {
		var b [1]byte
		for {
			n, _, e := syscall.Syscall(syscall.SYS_READ, uintptr(t.pipe[0]), uintptr(unsafe.Pointer(&b[0])), 1)
			if e == syscall.EINTR || (e == 0 && n == 0) {
				continue
			}
			return
		}
	}
	<-t.wake
}

// Mutex is the scheduler-aware mutex used by the shim.
type Mutex struct {
	owner *thread
	held  bool
}

type pointRec struct {
	enabled          []int // canonical order: current thread first if enabled, then ascending ids
	runningEnabled   bool
	chosen           int // index into enabled
	preemptionsSoFar int
}

// Exec is one controlled execution.
type Exec struct {
	threads []*thread
	cur     *thread
	prefix  []int
	points  []pointRec
	Trace   []Event
	preempt int
	mu      sync.Mutex
	fin     chan struct{}
	err     string
	aborted bool
	maxPts  int
}

var (
	activeMu sync.Mutex
	active   *Exec
)

// Active returns the execution in progress (nil when none): the shims fall back to the real primitives then.
//
//go:norace
func Active() *Exec { return active }

type abortExec struct{}

// Point is a scheduling point before operation op on obj, called by the running controlled goroutine.
//
//go:norace
func (x *Exec) Point(op string, obj interface{}) {
	t := x.cur
	x.Trace = append(x.Trace, Event{Thread: t.id, Op: op + "?", Obj: obj})
	x.schedule(t, true)
}

// Done records the operation that was announced by the preceding Point, at the moment it takes effect.
//
//go:norace
func (x *Exec) Done(op string, obj, val interface{}) {
	x.Trace = append(x.Trace, Event{Thread: x.cur.id, Op: op, Obj: obj, Val: val})
}

// Note records an event in the trace without offering a scheduling point.
//
//go:norace
func (x *Exec) Note(op string, obj interface{}) {
	x.Trace = append(x.Trace, Event{Thread: x.cur.id, Op: op, Obj: obj})
}

//go:norace
func (x *Exec) enabledList(cur *thread, curEnabled bool) []int {
	var res []int
	if curEnabled {
		res = append(res, cur.id)
	}
	for _, t := range x.threads {
		if t != cur && !t.done && t.blocked == nil {
			res = append(res, t.id)
		}
	}
	return res
}

// schedule decides who runs next; curEnabled says whether the calling thread can continue.
//
//go:norace
func (x *Exec) schedule(cur *thread, curEnabled bool) {
	en := x.enabledList(cur, curEnabled)
	if len(en) == 0 {
		// nobody can run
		for _, t := range x.threads {
			if !t.done {
				x.err = "deadlock: no enabled thread"
				break
			}
		}
		x.finish()
		if !cur.done {
			panic(abortExec{})
		}
		return
	}
	if len(x.points) >= x.maxPts {
		x.err = fmt.Sprintf("horizon of %d scheduling points exceeded", x.maxPts)
		x.finish()
		panic(abortExec{})
	}
	idx := 0
	if n := len(x.points); n < len(x.prefix) {
		idx = x.prefix[n]
		if idx >= len(en) {
			x.err = fmt.Sprintf("replay diverged at point %d: choice %d of %d enabled", n, idx, len(en))
			x.finish()
			panic(abortExec{})
		}
	}
	x.points = append(x.points, pointRec{enabled: en, runningEnabled: curEnabled, chosen: idx, preemptionsSoFar: x.preempt})
	if curEnabled && idx != 0 {
		x.preempt++
	}
	next := x.threads[en[idx]]
	if next == cur {
		return
	}
	x.cur = next
	if !next.started {
		next.started = true
	}
	next.signal()
	if cur.done {
		return
	}
	cur.park()
	if x.aborted {
		panic(abortExec{})
	}
}

//go:norace
func (x *Exec) finish() {
	if !x.aborted {
		x.aborted = true
		close(x.fin)
	}
}

// Lock / Unlock implement a mutex whose waiting is visible to the scheduler.
//
//go:norace
func (x *Exec) Lock(m *Mutex) {
	t := x.cur
	for {
		x.Trace = append(x.Trace, Event{Thread: t.id, Op: "lock?", Obj: m})
		x.schedule(t, true)
		if !m.held {
			m.held, m.owner = true, t
			x.Trace = append(x.Trace, Event{Thread: t.id, Op: "lock", Obj: m})
			return
		}
		t.blocked = m
		x.schedule(t, false)
	}
}

// UnlockPoint is the scheduling point before an unlock; UnlockDone marks the mutex free afterwards.
//
//go:norace
func (x *Exec) UnlockPoint(m *Mutex) {
	t := x.cur
	x.Trace = append(x.Trace, Event{Thread: t.id, Op: "unlock", Obj: m})
	x.schedule(t, true)
}

//go:norace
func (x *Exec) UnlockDone(m *Mutex) {
	m.held, m.owner = false, nil
	for _, o := range x.threads {
		if o.blocked == m {
			o.blocked = nil
		}
	}
}

// Result of one execution.
type Result struct {
	Choices     []int
	Points      int
	Preemptions int
	Trace       []Event
	Err         string // deadlock / divergence / horizon
	points      []pointRec
}

// Run executes bodies under the scheduler following prefix, then default choices.
//
//go:norace
func Run(prefix []int, maxPoints int, bodies []func()) Result {
	x := &Exec{prefix: prefix, fin: make(chan struct{}), maxPts: maxPoints}
	for i := range bodies {
		t := &thread{id: i, wake: make(chan struct{}, 1)}
		if Raw {
			if err := syscall.Pipe(t.pipe[:]); err != nil {
				panic(err)
			}
		}
		x.threads = append(x.threads, t)
	}
	activeMu.Lock()
	active = x
	var wg sync.WaitGroup
	for i, b := range bodies {
		wg.Add(1)
		go x.threadMain(x.threads[i], b, &wg)
	}
	x.cur = x.threads[0]
	x.threads[0].started = true
	x.threads[0].signal()
	<-x.fin
	// release every parked goroutine so that it can unwind
	for _, t := range x.threads {
		if Raw {
			if !t.done {
				t.signal()
			}
			continue
		}
		select {
		case t.wake <- struct{}{}:
		default:
		}
	}
	wg.Wait()
	if Raw {
		for _, t := range x.threads {
			syscall.Close(t.pipe[0])
			syscall.Close(t.pipe[1])
		}
	}
	active = nil
	activeMu.Unlock()
	res := Result{Points: len(x.points), Preemptions: x.preempt, Trace: x.Trace, Err: x.err, points: x.points}
	for _, p := range x.points {
		res.Choices = append(res.Choices, p.chosen)
	}
	return res
}

//go:norace
func (x *Exec) threadMain(t *thread, body func(), wg *sync.WaitGroup) {
	defer wg.Done()
	t.park()
	if x.aborted {
		return
	}
	defer x.threadRecover(t)
	body()
	t.done = true
	x.Trace = append(x.Trace, Event{Thread: t.id, Op: "exit"})
	x.schedule(t, false)
}

//go:norace
func (x *Exec) threadRecover(t *thread) {
	if r := recover(); r != nil {
		if _, ok := r.(abortExec); !ok {
			x.err = fmt.Sprintf("thread %d panicked: %v", t.id, r)
			x.finish()
		}
	}
}

// Explore enumerates all schedules with at most bound preemptions. check is called for every complete execution;
// it returns false to stop the exploration. Returns the number of executions and whether the space was exhausted.
//
//go:norace
func Explore(bound, maxPoints int, mk func() []func(), check func(Result) bool, expired func() bool) (execs int, exhausted bool) {
	exhausted = true
	var rec func(prefix []int) bool
	rec = func(prefix []int) bool {
		if expired != nil && expired() {
			exhausted = false
			return false
		}
		CurrentPrefix = prefix
		res := Run(prefix, maxPoints, mk())
		execs++
		if !check(res) {
			exhausted = false
			return false
		}
		for i := len(prefix); i < len(res.points); i++ {
			p := res.points[i]
			for alt := 1; alt < len(p.enabled); alt++ {
				cost := p.preemptionsSoFar
				if p.runningEnabled {
					cost++
				}
				if cost > bound {
					continue
				}
				np := append(append([]int{}, res.Choices[:i]...), alt)
				if !rec(np) {
					return false
				}
			}
		}
		return true
	}
	rec(nil)
	return
}
