// Package deephash computes a structural hash of everything reachable from a Go value, including unexported
// fields (through unsafe), following pointers, slices, maps and interfaces with cycle detection. It is used to show
// that running a shared value (a compiled *goja.Program, a primitive goja.Value) does not write to it.
//
// Two walks over unchanged memory give the same hash; any changed scalar, length, pointer target or newly
// reachable object changes it. Func values and channels are hashed by identity only. Fields can be excluded by
// "Type.Field" name (for state that is only touched under a lock / sync.Once of the value itself).
package deephash

import (
	"fmt"
	"hash/fnv"
	"math"
	"reflect"
	"sort"
	"unsafe"
)

type Hasher struct {
	Skip    map[string]bool // "pkgpath.Type.Field"
	h       [2]uint64
	visited map[visit]int
	Nodes   int
	// Paths collects, when Trace is set, a line per visited scalar: path = value (for diffing two walks).
	Trace bool
	Lines []string
}

type visit struct {
	p unsafe.Pointer
	t reflect.Type
}

func New(skip ...string) *Hasher {
	h := &Hasher{Skip: map[string]bool{}, visited: map[visit]int{}}
	for _, s := range skip {
		h.Skip[s] = true
	}
	return h
}

func (h *Hasher) mix(x uint64) {
	h.h[0] = (h.h[0] ^ x) * 0x100000001b3
	h.h[1] = (h.h[1] + x*0x9e3779b97f4a7c15) ^ (h.h[1] >> 29)
}

func (h *Hasher) mixString(s string) {
	f := fnv.New64a()
	f.Write([]byte(s))
	h.mix(f.Sum64())
	h.mix(uint64(len(s)))
}

func (h *Hasher) Sum() string { return fmt.Sprintf("%016x%016x", h.h[0], h.h[1]) }

// Add walks v (typically a pointer) and mixes it into the hash.
func (h *Hasher) Add(v interface{}) {
	h.walk(reflect.ValueOf(v), "$")
}

func (h *Hasher) note(path string, val interface{}) {
	if h.Trace {
		h.Lines = append(h.Lines, fmt.Sprintf("%s = %v", path, val))
	}
}

func access(v reflect.Value) reflect.Value {
	if v.CanInterface() || !v.CanAddr() {
		return v
	}
	return reflect.NewAt(v.Type(), unsafe.Pointer(v.UnsafeAddr())).Elem()
}

// addressable copies a non-addressable value (interface / map element) so that its unexported fields can be read.
func addressable(v reflect.Value) reflect.Value {
	if !v.IsValid() || v.CanAddr() {
		return v
	}
	switch v.Kind() {
	case reflect.Struct, reflect.Array:
		cp := reflect.New(v.Type()).Elem()
		cp.Set(v)
		return cp
	}
	return v
}

func (h *Hasher) walk(v reflect.Value, path string) {
	h.Nodes++
	if !v.IsValid() {
		h.mix(0xdead)
		return
	}
	v = access(v)
	h.mix(uint64(v.Kind()))
	switch v.Kind() {
	case reflect.Bool:
		if v.Bool() {
			h.mix(1)
		} else {
			h.mix(2)
		}
		h.note(path, v.Bool())
	case reflect.Int, reflect.Int8, reflect.Int16, reflect.Int32, reflect.Int64:
		h.mix(uint64(v.Int()))
		h.note(path, v.Int())
	case reflect.Uint, reflect.Uint8, reflect.Uint16, reflect.Uint32, reflect.Uint64, reflect.Uintptr:
		h.mix(v.Uint())
		h.note(path, v.Uint())
	case reflect.Float32, reflect.Float64:
		h.mix(math.Float64bits(v.Float()))
		h.note(path, v.Float())
	case reflect.Complex64, reflect.Complex128:
		c := v.Complex()
		h.mix(math.Float64bits(real(c)))
		h.mix(math.Float64bits(imag(c)))
	case reflect.String:
		h.mixString(v.String())
		if len(v.String()) < 40 {
			h.note(path, v.String())
		} else {
			h.note(path, fmt.Sprintf("string(len %d)", len(v.String())))
		}
	case reflect.Ptr:
		if v.IsNil() {
			h.mix(0)
			h.note(path, "nil")
			return
		}
		k := visit{unsafe.Pointer(v.Pointer()), v.Type()}
		if id, ok := h.visited[k]; ok {
			h.mix(uint64(id) + 0x1000)
			return
		}
		h.visited[k] = len(h.visited) + 1
		h.walk(v.Elem(), path+"*")
	case reflect.Interface:
		if v.IsNil() {
			h.mix(0)
			h.note(path, "nil")
			return
		}
		e := addressable(v.Elem())
		h.mixString(e.Type().String())
		h.note(path+".(type)", e.Type().String())
		h.walk(e, path)
	case reflect.Struct:
		t := v.Type()
		if pp := t.PkgPath(); pp == "sync" || pp == "sync/atomic" || pp == "internal/sync" {
			// synchronisation objects (Mutex, Once, Pool, atomic.*) are written by design, under their own protocol
			return
		}
		for i := 0; i < v.NumField(); i++ {
			f := t.Field(i)
			name := t.PkgPath() + "." + t.Name() + "." + f.Name
			if h.Skip[name] {
				continue
			}
			h.walk(v.Field(i), path+"."+f.Name)
		}
	case reflect.Slice:
		if v.IsNil() {
			h.mix(0)
			h.note(path, "nil")
			return
		}
		h.mix(uint64(v.Len()))
		h.note(path+".len", v.Len())
		k := visit{unsafe.Pointer(v.Pointer()), v.Type()}
		if v.Len() > 0 {
			if id, ok := h.visited[k]; ok {
				h.mix(uint64(id) + 0x2000)
				// a slice header with the same base but another length still needs its own walk
			} else {
				h.visited[k] = len(h.visited) + 1
			}
		}
		for i := 0; i < v.Len(); i++ {
			h.walk(v.Index(i), fmt.Sprintf("%s[%d]", path, i))
		}
	case reflect.Array:
		for i := 0; i < v.Len(); i++ {
			h.walk(v.Index(i), fmt.Sprintf("%s[%d]", path, i))
		}
	case reflect.Map:
		if v.IsNil() {
			h.mix(0)
			h.note(path, "nil")
			return
		}
		k := visit{unsafe.Pointer(v.Pointer()), v.Type()}
		if id, ok := h.visited[k]; ok {
			h.mix(uint64(id) + 0x3000)
			return
		}
		h.visited[k] = len(h.visited) + 1
		h.mix(uint64(v.Len()))
		h.note(path+".len", v.Len())
		// order-independent: hash each entry with a sub-hasher sharing the visited set, then sort
		type ent struct {
			key string
			k   reflect.Value
		}
		var ents []ent
		iter := v.MapRange()
		for iter.Next() {
			sub := &Hasher{Skip: h.Skip, visited: map[visit]int{}}
			sub.walk(addressable(iter.Key()), "")
			ents = append(ents, ent{sub.Sum(), iter.Key()})
		}
		sort.Slice(ents, func(i, j int) bool { return ents[i].key < ents[j].key })
		for _, e := range ents {
			h.mixString(e.key)
			h.walk(addressable(v.MapIndex(e.k)), fmt.Sprintf("%s[%s]", path, e.key[:8]))
		}
	case reflect.Func, reflect.Chan, reflect.UnsafePointer:
		if v.IsNil() {
			h.mix(0)
		} else {
			h.mix(1) // identity of code / channels is not state we track
		}
	default:
		h.mix(0xbad)
	}
}

// Value hashes one value with a fresh hasher.
func Value(v interface{}, skip ...string) (sum string, nodes int) {
	h := New(skip...)
	h.Add(v)
	return h.Sum(), h.Nodes
}

// Diff walks two snapshots' trace lines and returns the first few differing lines.
func Diff(a, b []string) []string {
	var res []string
	n := len(a)
	if len(b) < n {
		n = len(b)
	}
	for i := 0; i < n && len(res) < 8; i++ {
		if a[i] != b[i] {
			res = append(res, a[i]+"  ->  "+b[i])
		}
	}
	if len(a) != len(b) {
		res = append(res, fmt.Sprintf("trace length %d -> %d", len(a), len(b)))
	}
	return res
}
