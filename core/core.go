// Package core is the shared harness of the /verif checks: registry, tiers and deadlines,
// parallel index-range exploration, coverage counters, violation / known-finding handling,
// replay files and evidence output.
package core

import (
	"bufio"
	"crypto/sha1"
	"encoding/hex"
	"encoding/json"
	"flag"
	"fmt"
	"hash/maphash"
	"os"
	"path/filepath"
	"runtime"
	"sort"
	"strconv"
	"strings"
	"sync"
	"sync/atomic"
	"time"
)

const Root = "/verif"

type Check struct {
	ID    string
	Level string // evidence level: exploration | fault_enumeration | model_checking | translation_validation
	Rule  string // how cases are enumerated and what counts as non-trivial
	Run   func(r *Run)
	// Replay re-executes one recorded case (the "case" member of a replay file) without any explorer.
	// It must call r.Violation again if the case still fails.
	Replay func(r *Run, c json.RawMessage)
	// Prebuild, if set, compiles helper binaries once (used by MANIFEST.setup_cmd to warm the Go build cache).
	Prebuild func()
}

var registry = map[string]*Check{}

func Register(c *Check) { registry[c.ID] = c }

type Violation struct {
	Property  string      `json:"property"`
	Signature string      `json:"signature"`
	What      string      `json:"what"`
	Case      interface{} `json:"case"`
	Count     int64       `json:"count"`
	path      string
}

type knownEntry struct {
	Property  string `json:"property"`
	Signature string `json:"signature"`
	What      string `json:"what"`
	Status    string `json:"status,omitempty"` // "" = open finding, "fixed" = repaired (suppresses nothing)
	Commit    string `json:"commit,omitempty"`
}

type set struct {
	mu [64]sync.Mutex
	m  [64]map[uint64]struct{}
}

func newSet() *set {
	s := &set{}
	for i := range s.m {
		s.m[i] = map[uint64]struct{}{}
	}
	return s
}

var seed = maphash.MakeSeed()

func HashString(s string) uint64 { return maphash.String(seed, s) }

func (s *set) add(h uint64) bool {
	i := h & 63
	s.mu[i].Lock()
	_, ok := s.m[i][h]
	if !ok {
		s.m[i][h] = struct{}{}
	}
	s.mu[i].Unlock()
	return !ok
}
func (s *set) len() int {
	n := 0
	for i := range s.m {
		s.mu[i].Lock()
		n += len(s.m[i])
		s.mu[i].Unlock()
	}
	return n
}

type Run struct {
	ID       string
	Tier     string
	Seed     int64
	Workers  int
	Start    time.Time
	Deadline time.Time
	check    *Check

	evaluations, states, transitions, traces, programs, disagreements atomic.Int64
	nontrivial, outcomes                                              *set
	capped                                                            atomic.Bool
	nontrivialN                                                       atomic.Int64

	mu          sync.Mutex
	samples     []interface{}
	sampleSeen  int64
	violations  map[string]*Violation
	known       map[string]string
	knownSeen   map[string]int64
	extra       map[string]interface{}
	assumptions []string
	exhaustive  bool
	explanation string
	replaying   bool
	shard       shardCfg
	outcomeKeys map[string]struct{}
}

func (r *Run) Quick() bool    { return r.Tier != "thorough" }
func (r *Run) Thorough() bool { return r.Tier == "thorough" }

// Pick returns q in the quick tier and t in the thorough tier.
func (r *Run) Pick(q, t int) int {
	if r.Thorough() {
		return t
	}
	return q
}

func (r *Run) Eval(n int64)          { r.evaluations.Add(n) }
func (r *Run) States(n int64)        { r.states.Add(n) }
func (r *Run) Transitions(n int64)   { r.transitions.Add(n) }
func (r *Run) Traces(n int64)        { r.traces.Add(n) }
func (r *Run) Programs(n int64)      { r.programs.Add(n) }
func (r *Run) Disagreements(n int64) { r.disagreements.Add(n) }
func (r *Run) Nontrivial(key string) { r.nontrivial.add(HashString(key)) }
func (r *Run) NontrivialH(h uint64)  { r.nontrivial.add(h) }

// NontrivialN counts n non-trivial cases that are distinct by construction (distinct ranks of an enumeration).
func (r *Run) NontrivialN(n int64) { r.nontrivialN.Add(n) }
func (r *Run) Outcome(key string) {
	r.outcomes.add(HashString(key))
	if r.outcomeKeys != nil {
		r.mu.Lock()
		r.outcomeKeys[key] = struct{}{}
		r.mu.Unlock()
	}
}
func (r *Run) OutcomeH(h uint64)  { r.outcomes.add(h) }
func (r *Run) Evaluations() int64 { return r.evaluations.Load() }
func (r *Run) Assume(s string)    { r.mu.Lock(); r.assumptions = append(r.assumptions, s); r.mu.Unlock() }
func (r *Run) Explain(s string)   { r.mu.Lock(); r.explanation = s; r.mu.Unlock() }
func (r *Run) Set(k string, v interface{}) {
	r.mu.Lock()
	r.extra[k] = v
	r.mu.Unlock()
}

// Add accumulates a named integer counter in the evidence "coverage" object.
func (r *Run) Add(k string, n int64) {
	r.mu.Lock()
	if v, ok := r.extra[k].(int64); ok {
		r.extra[k] = v + n
	} else {
		r.extra[k] = n
	}
	r.mu.Unlock()
}

// Exhaustive records that the bounded space of this tier was enumerated completely.
// It is ignored if a deadline cap was hit.
func (r *Run) Exhaustive(b bool) { r.mu.Lock(); r.exhaustive = b; r.mu.Unlock() }

// Expired reports whether the internal wall-clock budget is used up; the run is then reported as capped
// (exhaustive:false) and still exits 0 if nothing failed.
func (r *Run) Expired() bool {
	if time.Now().After(r.Deadline) {
		r.capped.Store(true)
		return true
	}
	return false
}
func (r *Run) Capped() bool { return r.capped.Load() }

// Sample keeps a few of the explored cases for the evidence file (illustration only; never decides anything).
func (r *Run) Sample(v interface{}) {
	r.mu.Lock()
	r.sampleSeen++
	n := r.sampleSeen
	if len(r.samples) < 4 {
		r.samples = append(r.samples, v)
	} else if len(r.samples) < 12 && n&(n-1) == 0 { // powers of two: spread over the enumeration order
		r.samples = append(r.samples, v)
	}
	r.mu.Unlock()
}

// WantSample is a cheap pre-test so that callers do not build sample values for every case.
func (r *Run) WantSample(i int64) bool { return i < 4 || i&(i-1) == 0 }

// Violation records one failing case. sig classifies the failure (what fails, not which property);
// a signature listed in known-findings.jsonl is reported as KNOWN-FINDING, anything else as VIOLATION.
func (r *Run) Violation(sig, what string, c interface{}) {
	r.mu.Lock()
	defer r.mu.Unlock()
	if _, ok := r.known[sig]; ok {
		r.knownSeen[sig]++
		return
	}
	if v, ok := r.violations[sig]; ok {
		v.Count++
		return
	}
	if len(r.violations) >= 200 {
		r.violations["…more"] = &Violation{Property: r.ID, Signature: "…more", What: "more than 200 distinct violation signatures", Count: 1}
		return
	}
	r.violations[sig] = &Violation{Property: r.ID, Signature: sig, What: what, Case: c, Count: 1}
}

// ViolationCount is the number of distinct unlisted violation signatures so far.
func (r *Run) ViolationCount() int { r.mu.Lock(); defer r.mu.Unlock(); return len(r.violations) }

// IsKnown reports whether sig is a listed open finding.
func (r *Run) IsKnown(sig string) bool { _, ok := r.known[sig]; return ok }

// Parallel runs fn over [0,n) in chunks on r.Workers goroutines; it stops handing out chunks when the
// deadline expires (returns false then).
func (r *Run) Parallel(n, chunk int64, fn func(worker int, lo, hi int64)) bool {
	if chunk <= 0 {
		chunk = 1
	}
	var next atomic.Int64
	var wg sync.WaitGroup
	complete := atomic.Bool{}
	complete.Store(true)
	base := r.shard.chunkBase
	r.shard.chunkBase += (n + chunk - 1) / chunk
	for w := 0; w < r.Workers; w++ {
		wg.Add(1)
		go func(w int) {
			defer wg.Done()
			for {
				lo := next.Add(chunk) - chunk
				if lo >= n {
					return
				}
				if !r.chunkAllowed(base + lo/chunk) {
					continue
				}
				if r.Expired() {
					complete.Store(false)
					return
				}
				hi := lo + chunk
				if hi > n {
					hi = n
				}
				fn(w, lo, hi)
			}
		}(w)
	}
	wg.Wait()
	return complete.Load()
}

func loadKnown(id string) map[string]string {
	res := map[string]string{}
	files, _ := filepath.Glob(filepath.Join(Root, "findings.d", "*.jsonl")) // work-in-progress lists, merged into known-findings.jsonl on integration
	for _, fn := range append([]string{filepath.Join(Root, "known-findings.jsonl")}, files...) {
		loadKnownFile(fn, id, res)
	}
	return res
}

func loadKnownFile(fn, id string, res map[string]string) {
	f, err := os.Open(fn)
	if err != nil {
		return
	}
	defer f.Close()
	sc := bufio.NewScanner(f)
	sc.Buffer(make([]byte, 1<<20), 1<<24)
	for sc.Scan() {
		line := strings.TrimSpace(sc.Text())
		if line == "" || line[0] != '{' {
			continue
		}
		var e knownEntry
		if json.Unmarshal([]byte(line), &e) != nil || e.Property != id || e.Status == "fixed" {
			continue
		}
		res[e.Signature] = e.What
	}
}

func (r *Run) finish() int {
	wall := time.Since(r.Start).Seconds()
	sigs := make([]string, 0, len(r.violations))
	for s := range r.violations {
		sigs = append(sigs, s)
	}
	sort.Strings(sigs)
	if !r.replaying {
		os.MkdirAll(filepath.Join(Root, "replays", r.ID), 0o755)
	}
	for _, s := range sigs {
		v := r.violations[s]
		if r.replaying {
			fmt.Printf("VIOLATION property=%s replay=%s signature=%q what=%q\n", r.ID, os.Getenv("VERIF_REPLAY_PATH"), v.Signature, v.What)
			continue
		}
		h := sha1.Sum([]byte(s))
		v.path = filepath.Join(Root, "replays", r.ID, hex.EncodeToString(h[:6])+".json")
		b, _ := json.MarshalIndent(v, "", " ")
		os.WriteFile(v.path, b, 0o644)
		fmt.Printf("VIOLATION property=%s replay=%s signature=%q count=%d what=%q\n", r.ID, v.path, v.Signature, v.Count, v.What)
	}
	ks := make([]string, 0, len(r.knownSeen))
	for s := range r.knownSeen {
		ks = append(ks, s)
	}
	sort.Strings(ks)
	for _, s := range ks {
		fmt.Printf("KNOWN-FINDING: property=%s %s [signature=%s, cases=%d]\n", r.ID, r.known[s], s, r.knownSeen[s])
	}
	if r.replaying {
		if len(sigs) > 0 {
			return 1
		}
		fmt.Printf("replay: property=%s case passes\n", r.ID)
		return 0
	}
	cov := map[string]interface{}{}
	for k, v := range r.extra {
		cov[k] = v
	}
	cov["evaluations"] = r.evaluations.Load()
	cov["distinct_nontrivial"] = int64(r.nontrivial.len()) + r.nontrivialN.Load()
	cov["distinct_outcomes"] = r.outcomes.len()
	cov["rule"] = r.check.Rule
	if len(r.samples) == 0 {
		r.samples = []interface{}{}
	}
	cov["samples"] = r.samples
	cov["exhaustive"] = r.exhaustive && !r.capped.Load()
	cov["deadline_cap_hit"] = r.capped.Load()
	cov["known_findings_observed"] = ks
	if r.explanation != "" {
		cov["explanation"] = r.explanation
	}
	switch r.check.Level {
	case "model_checking":
		cov["states"] = r.states.Load()
		cov["transitions"] = r.transitions.Load()
		cov["traces_validated_against_impl"] = r.traces.Load()
	case "translation_validation":
		cov["programs"] = r.programs.Load()
		cov["disagreements_checked"] = r.disagreements.Load()
	}
	ev := map[string]interface{}{
		"property_id": r.ID,
		"tier":        r.Tier,
		"seed":        r.Seed,
		"level":       r.check.Level,
		"coverage":    cov,
		"assumptions": append([]string{}, r.assumptions...),
		"wall_s":      wall,
		"violations":  len(sigs),
	}
	b, _ := json.MarshalIndent(ev, "", " ")
	os.MkdirAll(filepath.Join(Root, "evidence"), 0o755)
	if err := os.WriteFile(filepath.Join(Root, "evidence", r.ID+".json"), b, 0o644); err != nil {
		fmt.Fprintln(os.Stderr, "cannot write evidence:", err)
		return 2
	}
	fmt.Printf("%s tier=%s evaluations=%d states=%d transitions=%d distinct_nontrivial=%d distinct_outcomes=%d exhaustive=%v capped=%v violations=%d known=%d wall=%.1fs\n",
		r.ID, r.Tier, r.evaluations.Load(), r.states.Load(), r.transitions.Load(), int64(r.nontrivial.len())+r.nontrivialN.Load(), r.outcomes.len(), cov["exhaustive"], r.capped.Load(), len(sigs), len(ks), wall)
	if len(sigs) > 0 {
		return 1
	}
	return 0
}

// Main is the entry point of cmd/vcheck: vcheck <ID> [--tier quick|thorough] [--replay path] [--budget seconds]
func Main() {
	if len(os.Args) < 2 {
		ids := []string{}
		for id := range registry {
			ids = append(ids, id)
		}
		sort.Strings(ids)
		fmt.Fprintln(os.Stderr, "usage: vcheck <ID> [--tier quick|thorough] [--replay path] [--budget s]; checks:", strings.Join(ids, " "))
		os.Exit(2)
	}
	id := os.Args[1]
	fs := flag.NewFlagSet("vcheck", flag.ExitOnError)
	tier := fs.String("tier", envOr("VERIF_TIER", "quick"), "quick|thorough")
	replay := fs.String("replay", "", "replay file")
	prebuild := fs.Bool("prebuild", false, "only compile the helper binaries of this check (warms the build cache)")
	budget := fs.Int("budget", 0, "wall-clock budget in seconds (0 = tier default)")
	workers := fs.Int("workers", runtime.NumCPU(), "worker goroutines")
	shard := fs.String("shard", "", "k/P: execute only the chunks with sequence number = k mod P (worker of RunSharded)")
	skipUntil := fs.Int64("skip-until", -1, "skip chunks up to this sequence number")
	onlyChunk := fs.Int64("only-chunk", -1, "execute only this chunk")
	progress := fs.String("progress", "", "file receiving the sequence number of the chunk being executed")
	trace := fs.Bool("trace", false, "announce every case before executing it")
	workerJSON := fs.Bool("worker-json", false, "print a WORKER-RESULT line instead of writing evidence")
	fs.Parse(os.Args[2:])
	c, ok := registry[id]
	if !ok {
		fmt.Fprintln(os.Stderr, "unknown check", id)
		os.Exit(2)
	}
	if *prebuild {
		if c.Prebuild != nil {
			c.Prebuild()
		}
		os.Exit(0)
	}
	sd, _ := strconv.ParseInt(os.Getenv("VERIF_SEED"), 10, 64)
	if *tier != "thorough" {
		*tier = "quick"
	}
	b := *budget
	if b == 0 {
		if *tier == "thorough" {
			b = 1500
		} else {
			b = 75
		}
	}
	r := &Run{ID: id, Tier: *tier, Seed: sd, Workers: *workers, Start: time.Now(), check: c,
		nontrivial: newSet(), outcomes: newSet(), violations: map[string]*Violation{},
		known: loadKnown(id), knownSeen: map[string]int64{}, extra: map[string]interface{}{}}
	r.Deadline = r.Start.Add(time.Duration(b) * time.Second)
	r.shard.skipUntil, r.shard.onlyChunk, r.shard.progress, r.shard.trace, r.shard.json = *skipUntil, *onlyChunk, *progress, *trace, *workerJSON
	if *shard != "" {
		fmt.Sscanf(*shard, "%d/%d", &r.shard.idx, &r.shard.cnt)
	}
	if *workerJSON {
		r.known = map[string]string{} // the parent decides what is a known finding
		r.outcomeKeys = map[string]struct{}{}
		c.Run(r)
		r.emitWorkerResult()
		os.Exit(0)
	}
	if *replay != "" {
		r.replaying = true
		os.Setenv("VERIF_REPLAY_PATH", *replay)
		data, err := os.ReadFile(*replay)
		if err != nil {
			fmt.Fprintln(os.Stderr, err)
			os.Exit(2)
		}
		var v struct {
			Case json.RawMessage `json:"case"`
		}
		if err := json.Unmarshal(data, &v); err != nil || c.Replay == nil {
			fmt.Fprintln(os.Stderr, "cannot replay:", err)
			os.Exit(2)
		}
		r.known = map[string]string{} // a replay judges the case itself
		c.Replay(r, v.Case)
		os.Exit(r.finish())
	}
	os.RemoveAll(filepath.Join(Root, "replays", id))
	c.Run(r)
	os.Exit(r.finish())
}

func envOr(k, d string) string {
	if v := os.Getenv(k); v != "" {
		return v
	}
	return d
}
