package core

import (
	"bufio"
	"bytes"
	"encoding/json"
	"fmt"
	"os"
	"os/exec"
	"path/filepath"
	"regexp"
	"strings"
	"sync"
	"time"
)

// Engine E5: process-level sharding with crash containment. A check whose cases can kill the process (Go fatal
// errors: out of memory, stack exhaustion, "invalid pointer found on stack" …) runs its whole Run function in
// P worker processes; worker k executes the chunks of every r.Parallel call whose global sequence number is
// congruent k mod P, under `ulimit -v`. Before each chunk the worker records the sequence number in a progress
// file. If a worker dies, the parent re-runs exactly that chunk in a fresh process in trace mode (the check
// prints every case before executing it via core.TraceCase), attributes the death to the last traced case,
// records it as a violation, and restarts the shard after that chunk.

type shardCfg struct {
	idx, cnt  int64 // this process executes chunks with seq % cnt == idx (cnt == 0: no sharding)
	skipUntil int64 // chunks with seq <= skipUntil are skipped (resume after a crash)
	onlyChunk int64 // >= 0: execute only this chunk
	progress  string
	trace     bool
	json      bool
	chunkBase int64
	mu        sync.Mutex
}

// Trace reports whether this process must announce every case before executing it.
func (r *Run) Trace() bool { return r.shard.trace }

// TraceCase announces a case about to be executed (only in trace mode); v is JSON-marshalled.
func (r *Run) TraceCase(v interface{}) {
	if !r.shard.trace {
		return
	}
	b, _ := json.Marshal(v)
	fmt.Fprintf(os.Stderr, "\nTRACE-CASE %s\n", b)
}

// chunkAllowed is called by Parallel for the chunk starting at lo of a call whose chunks are numbered from base.
func (r *Run) chunkAllowed(seq int64) bool {
	s := &r.shard
	if s.onlyChunk >= 0 {
		return seq == s.onlyChunk
	}
	if s.cnt > 0 && seq%s.cnt != s.idx {
		return false
	}
	if seq <= s.skipUntil {
		return false
	}
	if s.progress != "" {
		s.mu.Lock()
		os.WriteFile(s.progress, []byte(fmt.Sprint(seq)), 0o644)
		s.mu.Unlock()
	}
	return true
}

type workerResult struct {
	Evaluations int64                  `json:"evaluations"`
	NontrivialN int64                  `json:"nontrivial_n"`
	Outcomes    []string               `json:"outcomes"`
	Violations  []*Violation           `json:"violations"`
	Samples     []interface{}          `json:"samples"`
	Extra       map[string]interface{} `json:"extra"`
	Capped      bool                   `json:"capped"`
	Exhaustive  bool                   `json:"exhaustive"`
}

func (r *Run) emitWorkerResult() {
	res := workerResult{Evaluations: r.evaluations.Load(), NontrivialN: r.nontrivialN.Load(), Samples: r.samples, Extra: r.extra, Capped: r.capped.Load(), Exhaustive: r.exhaustive}
	for k := range r.outcomeKeys {
		res.Outcomes = append(res.Outcomes, k)
	}
	for _, v := range r.violations {
		res.Violations = append(res.Violations, v)
	}
	b, _ := json.Marshal(res)
	fmt.Printf("WORKER-RESULT %s\n", b)
}

// IsWorker reports whether this process is a shard worker of RunSharded.
func (r *Run) IsWorker() bool { return r.shard.json }

// RunSharded executes the check's Run function in r.Workers worker processes (each single-threaded) and merges
// their results into r. memKB is the address-space limit per worker (ulimit -v). It returns whether every shard
// completed its share without hitting the deadline.
func (r *Run) RunSharded(memKB int64) bool {
	procs := r.Workers
	if procs < 1 {
		procs = 1
	}
	exe, _ := os.Executable()
	dir := filepath.Join(Root, ".build", fmt.Sprintf("shards-%s-%d", r.ID, os.Getpid()))
	os.MkdirAll(dir, 0o755)
	defer os.RemoveAll(dir)
	var mu sync.Mutex
	complete := true
	merge := func(res *workerResult) {
		mu.Lock()
		defer mu.Unlock()
		r.evaluations.Add(res.Evaluations)
		r.nontrivialN.Add(res.NontrivialN)
		for _, o := range res.Outcomes {
			r.Outcome(o)
		}
		for _, s := range res.Samples {
			if len(r.samples) < 12 {
				r.samples = append(r.samples, s)
			}
		}
		for k, v := range res.Extra {
			if _, ok := r.extra[k]; !ok {
				r.extra[k] = v
			}
		}
		if res.Capped {
			r.capped.Store(true)
		}
		if !res.Exhaustive {
			complete = false
		}
	}
	spawn := func(args []string) (stdout, stderr string, err error) {
		left := int(time.Until(r.Deadline).Seconds())
		if left < 5 {
			left = 5
		}
		full := append([]string{r.ID, "--tier", r.Tier, "--workers", "1", "--budget", fmt.Sprint(left), "--worker-json"}, args...)
		sh := fmt.Sprintf("ulimit -v %d; exec \"$0\" \"$@\"", memKB)
		cmd := exec.Command("/bin/sh", append([]string{"-c", sh, exe}, full...)...)
		var o, e bytes.Buffer
		cmd.Stdout, cmd.Stderr = &o, &e
		cmd.Env = append(os.Environ(), "GOMAXPROCS=2", "GOTRACEBACK=single")
		err = cmd.Run()
		return o.String(), e.String(), err
	}
	parse := func(stdout string) *workerResult {
		sc := bufio.NewScanner(strings.NewReader(stdout))
		sc.Buffer(make([]byte, 1<<20), 1<<28)
		for sc.Scan() {
			if l := sc.Text(); strings.HasPrefix(l, "WORKER-RESULT ") {
				var res workerResult
				if json.Unmarshal([]byte(l[len("WORKER-RESULT "):]), &res) == nil {
					return &res
				}
			}
		}
		return nil
	}
	var wg sync.WaitGroup
	for k := 0; k < procs; k++ {
		wg.Add(1)
		go func(k int) {
			defer wg.Done()
			skip := int64(-1)
			prog := filepath.Join(dir, fmt.Sprintf("progress.%d", k))
			for attempt := 0; attempt < 50; attempt++ {
				os.Remove(prog)
				out, errOut, err := spawn([]string{"--shard", fmt.Sprintf("%d/%d", k, procs), "--skip-until", fmt.Sprint(skip), "--progress", prog})
				res := parse(out)
				if res != nil {
					for _, v := range res.Violations {
						for i := int64(0); i < v.Count; i++ {
							r.Violation(v.Signature, v.What, v.Case)
						}
					}
					merge(res)
					return
				}
				// the worker died: find the chunk, re-run it traced, attribute the death to the last traced case
				pb, _ := os.ReadFile(prog)
				var seq int64 = -1
				fmt.Sscan(string(pb), &seq)
				if seq < 0 {
					r.Violation("harness|worker-died-before-first-chunk", fmt.Sprintf("worker %d died before its first chunk: %v\n%s", k, err, firstLines(errOut, 12)), nil)
					mu.Lock()
					complete = false
					mu.Unlock()
					return
				}
				_, terr, _ := spawn([]string{"--only-chunk", fmt.Sprint(seq), "--trace"})
				var last json.RawMessage
				for _, l := range strings.Split(terr, "\n") {
					if strings.HasPrefix(l, "TRACE-CASE ") {
						last = json.RawMessage(l[len("TRACE-CASE "):])
					}
				}
				reason := FatalReason(terr)
				reproduced := reason != ""
				if !reproduced {
					reason = FatalReason(errOut)
				}
				sig := "fatal|" + reason
				what := fmt.Sprintf("the process executing this case died (Go fatal error, not a recoverable panic): %s", reason)
				if !reproduced {
					sig = "fatal-not-reproduced|" + reason
					what = fmt.Sprintf("a worker process died in chunk %d (%s) but the traced re-run of the chunk survived: the crash depends on earlier cases of the same process", seq, reason)
					last = nil
				}
				var c interface{}
				if last != nil {
					json.Unmarshal(last, &c)
				}
				r.Violation(sig, what, c)
				skip = seq
			}
		}(k)
	}
	wg.Wait()
	return complete
}

var reDigits = regexp.MustCompile(`[0-9]+`)

func firstLines(s string, n int) string {
	l := strings.Split(s, "\n")
	if len(l) > n {
		l = l[:n]
	}
	return strings.Join(l, "\n")
}

// FatalReason extracts "fatal error: …" / "runtime: …" / signal lines and the first goja frame from a crash dump.
func FatalReason(stderr string) string {
	lines := strings.Split(stderr, "\n")
	reason := ""
	for i, l := range lines {
		if strings.HasPrefix(l, "fatal error:") || strings.HasPrefix(l, "runtime: out of memory") || strings.HasPrefix(l, "SIGSEGV") || strings.HasPrefix(l, "signal: ") || strings.Contains(l, "stack exceeds") {
			reason = strings.TrimSpace(l)
			for _, m := range lines[i:] {
				m = strings.TrimSpace(m)
				if strings.HasPrefix(m, "github.com/dop251/goja") {
					if k := strings.LastIndexByte(m, '('); k > 0 {
						m = m[:k]
					}
					reason += " in " + strings.TrimPrefix(m, "github.com/dop251/goja")
					break
				}
			}
			break
		}
	}
	reason = reDigits.ReplaceAllString(reason, "N")
	if len(reason) > 200 {
		reason = reason[:200]
	}
	return reason
}
