package core

import (
	"fmt"
	"math"
	"strings"
)

// Grammar is an index-addressable bounded-exhaustive generator (engine E1): every derivation tree of a
// nonterminal with exactly n "nodes" has a rank in [0, Count(nt,n)), and Unrank returns the text of the
// tree with a given rank. Shards are therefore index ranges and a replay is (nt, n, rank) + the printed text.
//
// Grammar text: one rule per line,  NT := alt | alt | ...   An alternative is a sequence of tokens separated
// by single spaces; a token that names a nonterminal (declared anywhere on a left-hand side) is a child,
// everything else is literal text. The literal token "_" is a space, "" (two double quotes) is empty,
// "\n" a newline, "\|" a literal bar. Tokens are concatenated WITHOUT separators. Each alternative costs
// 1 node unless it starts with the token "@k" (k = explicit cost, may be 0 for pure unit productions with
// exactly one child).
type Grammar struct {
	nts   map[string]*nt
	order []string
	maxN  int
}

type nt struct {
	name  string
	prods []*prod
	count []uint64 // by size
}

type prod struct {
	cost  int
	parts []part
	kids  []int // indices into parts that are nonterminals
	// ways[j][m] = number of ways to fill kids[j:] with total size m
	ways [][]uint64
}

type part struct {
	lit string
	nt  *nt
}

func satAdd(a, b uint64) uint64 {
	if a > math.MaxUint64-b {
		return math.MaxUint64
	}
	return a + b
}
func satMul(a, b uint64) uint64 {
	if a == 0 || b == 0 {
		return 0
	}
	if a > math.MaxUint64/b {
		return math.MaxUint64
	}
	return a * b
}

func MustGrammar(text string, maxN int) *Grammar {
	g, err := NewGrammar(text, maxN)
	if err != nil {
		panic(err)
	}
	return g
}

func NewGrammar(text string, maxN int) (*Grammar, error) {
	g := &Grammar{nts: map[string]*nt{}, maxN: maxN}
	type rawRule struct{ lhs, rhs string }
	var rules []rawRule
	for _, line := range strings.Split(text, "\n") {
		line = strings.TrimSpace(line)
		if line == "" || strings.HasPrefix(line, "#") {
			continue
		}
		i := strings.Index(line, ":=")
		if i < 0 {
			return nil, fmt.Errorf("bad rule %q", line)
		}
		lhs := strings.TrimSpace(line[:i])
		rules = append(rules, rawRule{lhs, strings.TrimSpace(line[i+2:])})
		if g.nts[lhs] == nil {
			g.nts[lhs] = &nt{name: lhs}
			g.order = append(g.order, lhs)
		}
	}
	for _, r := range rules {
		n := g.nts[r.lhs]
		for _, alt := range splitAlts(r.rhs) {
			p := &prod{cost: 1}
			toks := strings.Split(strings.TrimSpace(alt), " ")
			for ti, t := range toks {
				if ti == 0 && strings.HasPrefix(t, "@") {
					fmt.Sscanf(t[1:], "%d", &p.cost)
					continue
				}
				if c, ok := g.nts[t]; ok {
					p.kids = append(p.kids, len(p.parts))
					p.parts = append(p.parts, part{nt: c})
					continue
				}
				switch t {
				case "_":
					t = " "
				case `""`:
					t = ""
				case `\n`:
					t = "\n"
				}
				t = strings.ReplaceAll(t, `\|`, "|")
				p.parts = append(p.parts, part{lit: t})
			}
			if p.cost == 0 && len(p.kids) != 1 {
				return nil, fmt.Errorf("zero-cost production must have exactly one child: %q", alt)
			}
			n.prods = append(n.prods, p)
		}
	}
	// counts by increasing size; zero-cost unit productions are resolved by iterating in rule order
	// (a zero-cost production may only refer to a nonterminal declared EARLIER or to itself-free chains).
	for _, name := range g.order {
		g.nts[name].count = make([]uint64, maxN+1)
	}
	for size := 1; size <= maxN; size++ {
		// two passes so that zero-cost unit productions see the counts of this size
		for pass := 0; pass < 4; pass++ {
			for _, name := range g.order {
				n := g.nts[name]
				var total uint64
				for _, p := range n.prods {
					total = satAdd(total, g.prodCount(p, size))
				}
				n.count[size] = total
			}
		}
	}
	for _, name := range g.order {
		for _, p := range g.nts[name].prods {
			g.buildWays(p)
		}
	}
	return g, nil
}

func splitAlts(s string) []string {
	var res []string
	cur := ""
	for _, t := range strings.Split(s, " ") {
		if t == "|" {
			res = append(res, cur)
			cur = ""
			continue
		}
		if cur != "" {
			cur += " "
		}
		cur += t
	}
	return append(res, cur)
}

// number of trees of production p with total size n (using current child counts)
func (g *Grammar) prodCount(p *prod, n int) uint64 {
	m := n - p.cost
	if m < 0 {
		return 0
	}
	if len(p.kids) == 0 {
		if m == 0 {
			return 1
		}
		return 0
	}
	// DP over kids
	cur := make([]uint64, m+1)
	cur[0] = 1
	for _, ki := range p.kids {
		c := p.parts[ki].nt
		next := make([]uint64, m+1)
		for used := 0; used <= m; used++ {
			if cur[used] == 0 {
				continue
			}
			for s := 1; used+s <= m; s++ {
				if c.count[s] != 0 {
					next[used+s] = satAdd(next[used+s], satMul(cur[used], c.count[s]))
				}
			}
		}
		cur = next
	}
	return cur[m]
}

func (g *Grammar) buildWays(p *prod) {
	k := len(p.kids)
	p.ways = make([][]uint64, k+1)
	for j := range p.ways {
		p.ways[j] = make([]uint64, g.maxN+1)
	}
	p.ways[k][0] = 1
	for j := k - 1; j >= 0; j-- {
		c := p.parts[p.kids[j]].nt
		for m := 0; m <= g.maxN; m++ {
			var t uint64
			for s := 1; s <= m; s++ {
				if c.count[s] != 0 && p.ways[j+1][m-s] != 0 {
					t = satAdd(t, satMul(c.count[s], p.ways[j+1][m-s]))
				}
			}
			p.ways[j][m] = t
		}
	}
}

// Count returns the number of trees of nonterminal name with exactly n nodes.
func (g *Grammar) Count(name string, n int) uint64 {
	if n < 1 || n > g.maxN {
		return 0
	}
	return g.nts[name].count[n]
}

// Unrank writes the text of tree number idx (0 <= idx < Count(name,n)).
func (g *Grammar) Unrank(name string, n int, idx uint64) string {
	var sb strings.Builder
	g.unrank(&sb, g.nts[name], n, idx)
	return sb.String()
}

func (g *Grammar) unrank(sb *strings.Builder, n *nt, size int, idx uint64) {
	for _, p := range n.prods {
		m := size - p.cost
		var c uint64
		if m >= 0 {
			if len(p.kids) == 0 {
				if m == 0 {
					c = 1
				}
			} else {
				c = p.ways[0][m]
			}
		}
		if idx >= c {
			idx -= c
			continue
		}
		// distribute m among kids
		sizes := make([]int, len(p.kids))
		idxs := make([]uint64, len(p.kids))
		rem := m
		for j := range p.kids {
			ch := p.parts[p.kids[j]].nt
			for s := 1; s <= rem; s++ {
				w := satMul(ch.count[s], p.ways[j+1][rem-s])
				if idx >= w {
					idx -= w
					continue
				}
				sizes[j] = s
				rest := p.ways[j+1][rem-s]
				idxs[j] = idx / rest
				idx = idx % rest
				rem -= s
				break
			}
		}
		kj := 0
		for _, pt := range p.parts {
			if pt.nt == nil {
				sb.WriteString(pt.lit)
			} else {
				g.unrank(sb, pt.nt, sizes[kj], idxs[kj])
				kj++
			}
		}
		return
	}
	panic(fmt.Sprintf("unrank: index out of range for %s size %d", n.name, size))
}
