#!/bin/sh
# usage: scripts/seed_eval.sh <ID> [check args]   — verifies a seeded change from /tmp/seed-<ID>-out (or /verif/seeded/<ID>)
# and runs the check against it. Writes /verif/seeded/<ID>/lead_verification.txt
id="$1"; shift
export GOFLAGS=-mod=mod GOPROXY=off
# SEED_ROUND=2 evaluates the second-round seed (/tmp/seed2-<ID>-out -> /verif/seeded/<ID>-r2)
dst=/verif/seeded/$id${SEED_ROUND:+-r$SEED_ROUND}
mkdir -p "$dst"
[ -d /tmp/seed$SEED_ROUND-$id-out ] && cp -r /tmp/seed$SEED_ROUND-$id-out/. "$dst"/
wt=/tmp/seedeval-$id-$$
git -C /repo worktree add -q --detach "$wt" HEAD || exit 2
trap 'git -C /repo worktree remove --force "$wt"; git -C /repo worktree prune; rm -f /verif/.build/*.$(echo "$wt" | cksum | cut -d" " -f1)*' EXIT
out="$dst/lead_verification.txt"
{
echo "repo HEAD: $(git -C /repo rev-parse --short HEAD)  date: $(date -u +%FT%TZ)"
if ! git -C "$wt" apply "$dst/patch.diff"; then echo "RESULT patch does not apply to current HEAD"; exit 0; fi
(cd "$wt" && go build ./... && go build -tags verif ./...) || { echo "RESULT does-not-compile"; exit 0; }
if ls "$dst"/*_test.go >/dev/null 2>&1; then
  cp "$dst"/*_test.go "$wt"/
  pat=$(grep -h "^func Test" "$dst"/*_test.go | sed 's/^func \(Test[A-Za-z0-9_]*\).*/\1/' | paste -sd'|')
  (cd "$wt" && go test -vet=off -count=1 -run "^($pat)\$" . >/tmp/seedeval-$$.log 2>&1); rc1=$?
  echo "demo with change: exit $rc1 (expected non-zero)"; grep -m3 -- "--- FAIL\|panic:" /tmp/seedeval-$$.log
  git -C "$wt" apply -R "$dst/patch.diff"
  (cd "$wt" && go test -vet=off -count=1 -run "^($pat)\$" . >/tmp/seedeval-$$.log 2>&1); rc2=$?
  echo "demo without change: exit $rc2 (expected 0)"
  rm -f "$wt"/demo*_test.go "$wt"/seed*_test.go; for f in "$dst"/*_test.go; do rm -f "$wt/$(basename $f)"; done
  git -C "$wt" apply "$dst/patch.diff"
else
  echo "demo is not a _test.go file: run by hand"
fi
(cd "$wt" && go test -vet=off -count=1 ./... >/tmp/seedeval-$$.log 2>&1); rc3=$?
echo "goja suite with change: exit $rc3 (expected 0)"; [ $rc3 -ne 0 ] && tail -5 /tmp/seedeval-$$.log
cp /verif/evidence/$id.json /tmp/seedeval-ev-$$.json 2>/dev/null
VERIF_REPO="$wt" /verif/bin/check "$id" "$@" > /tmp/seedeval-chk-$$.log 2>&1; rc4=$?
[ -f /tmp/seedeval-ev-$$.json ] && mv /tmp/seedeval-ev-$$.json /verif/evidence/$id.json
grep -m4 "^VIOLATION" /tmp/seedeval-chk-$$.log | cut -c1-400
tail -1 /tmp/seedeval-chk-$$.log | cut -c1-300
if [ $rc4 -eq 1 ]; then echo "RESULT check $id $* : CAUGHT (exit 1)"; else echo "RESULT check $id $* : MISSED (exit $rc4)"; fi
rm -f /tmp/seedeval-$$.log /tmp/seedeval-chk-$$.log
} > "$out" 2>&1
cat "$out"
