#!/opt/veriftools/pyvenv/bin/python
import json,jsonschema,glob,sys
ok=True
try:
    jsonschema.validate(json.load(open('/verif/MANIFEST.json')),json.load(open('/root/.vp/MANIFEST.schema.json'))); print('manifest ok')
except Exception as e: print('MANIFEST INVALID',e); ok=False
es=json.load(open('/root/.vp/EVIDENCE.schema.json'))
for f in sorted(glob.glob('/verif/evidence/*.json')):
    try: jsonschema.validate(json.load(open(f)),es); print(f,'ok')
    except Exception as e: print(f,'INVALID',str(e)[:300]); ok=False
sys.exit(0 if ok else 1)
