#!/bin/sh
# usage: scripts/mutant.sh <patch-file> <ID> [extra bin/check args]
# Applies a property-breaking patch to a scratch worktree of /repo, checks that goja's own suite still passes,
# runs the check against it (expects a VIOLATION) and removes the worktree again. Evidence in /verif/evidence is
# restored afterwards (mutant runs must not leave evidence behind).
patch="$(realpath "$1")"; id="$2"; shift 2
wt="/tmp/mut-$$"
export GOFLAGS=-mod=mod GOPROXY=off
git -C /repo worktree add -q --detach "$wt" HEAD || exit 2
trap 'git -C /repo worktree remove --force "$wt"; git -C /repo worktree prune; rm -f /verif/.build/*.$(echo "$wt" | cksum | cut -d" " -f1)*' EXIT
git -C "$wt" apply "$patch" || { echo "MUTANT-RESULT $patch apply-failed"; exit 2; }
(cd "$wt" && go build ./... ) || { echo "MUTANT-RESULT $patch does-not-compile"; exit 2; }
if [ -z "$SKIP_SUITE" ]; then
  (cd "$wt" && go test -vet=off -count=1 ./... >/tmp/mut-suite-$$.log 2>&1) || { echo "MUTANT-RESULT $patch suite-FAILS (not a valid mutant)"; tail -5 /tmp/mut-suite-$$.log; rm -f /tmp/mut-suite-$$.log; exit 3; }
  rm -f /tmp/mut-suite-$$.log
fi
cp /verif/evidence/$id.json /tmp/mut-ev-$$.json 2>/dev/null
VERIF_REPO="$wt" /verif/bin/check "$id" "$@" > /tmp/mut-out-$$.log 2>&1
rc=$?
[ -f /tmp/mut-ev-$$.json ] && mv /tmp/mut-ev-$$.json /verif/evidence/$id.json
grep -m3 "^VIOLATION" /tmp/mut-out-$$.log | cut -c1-300
tail -1 /tmp/mut-out-$$.log | cut -c1-250
rm -f /tmp/mut-out-$$.log
if [ $rc -eq 1 ]; then echo "MUTANT-RESULT $patch suite-passes check=CAUGHT"; else echo "MUTANT-RESULT $patch suite-passes check=MISSED (rc=$rc)"; fi
