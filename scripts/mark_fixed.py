#!/usr/bin/env python3
"""usage: mark_fixed.py <ID> <commit> <check-log> <substring-of-signature-or-what> [...]
Moves OPEN findings of property ID whose signature was NOT printed as KNOWN-FINDING in the given check log and whose
signature or text contains one of the substrings to status fixed (commit). Works on known-findings.jsonl and findings.d/ID.jsonl."""
import json,sys,os,re
pid,commit,log=sys.argv[1:4]; subs=sys.argv[4:]
printed=set(re.findall(r'\[signature=(.*), cases=\d+\]',open(log).read()))
def process(fn):
    if not os.path.exists(fn): return 0
    out=[];n=0
    for l in open(fn):
        l=l.strip()
        if not l: continue
        e=json.loads(l)
        if e['property']==pid and e.get('status')!='fixed' and e['signature'] not in printed and any(s in e['signature'] or s in e['what'] for s in subs):
            e={'status':'fixed','property':pid,'commit':commit,'signature':e['signature'],'what':f"fixed: property={pid} {commit} "+e['what']}
            n+=1
        out.append(json.dumps(e))
    open(fn,'w').write('\n'.join(out)+'\n')
    return n
print(process('/verif/known-findings.jsonl')+process(f'/verif/findings.d/{pid}.jsonl'),'moved to fixed')
