#!/usr/bin/env python3
"""Prints a markdown summary of known-findings.jsonl + findings.d/*.jsonl: per property fixed (by commit) and open entries."""
import json,glob,collections,subprocess
ents=[]
for f in ['/verif/known-findings.jsonl']+sorted(glob.glob('/verif/findings.d/*.jsonl')):
    for l in open(f):
        l=l.strip()
        if l.startswith('{'):
            try: ents.append(json.loads(l))
            except Exception as e: print('BAD LINE',f,l[:80])
by=collections.defaultdict(lambda:{'fixed':collections.defaultdict(list),'open':[]})
for e in ents:
    p=e['property']
    if e.get('status')=='fixed': by[p]['fixed'][e.get('commit','?')].append(e)
    else: by[p]['open'].append(e)
subj={}
for l in subprocess.run("git -C /repo log --format='%h %s'",shell=True,capture_output=True,text=True).stdout.splitlines():
    h,s=l.split(' ',1); subj[h[:7]]=s
print("| property | repaired defects (fix: commits) | signatures repaired | open findings (signatures) |")
print("|---|---|---|---|")
for p in sorted(by):
    fx=by[p]['fixed']
    print(f"| {p} | {len(fx)} | {sum(len(v) for v in fx.values())} | {len(by[p]['open'])} |")
print()
for p in sorted(by):
    print(f"**{p}**")
    for c,es in by[p]['fixed'].items():
        s=subj.get(c[:7],'')
        print(f"- fixed `{c}` {s[5:] if s.startswith('fix: ') else s} ({len(es)} signature{'s' if len(es)!=1 else ''})")
    for e in by[p]['open']:
        print(f"- OPEN `{e['signature'][:90]}` — {e['what'][:220]}")
    print()
