#!/usr/bin/env python3
"""Regenerates MANIFEST.json from checks.json (one record per claimed property) — keeps the manifest valid at all times."""
import json, subprocess
props=[json.loads(l) for l in open('/verif/properties.jsonl')]
checks=json.load(open('/verif/checks.json'))
# records of checks built by sub-agents live next to their code; they are claimed only when listed in checks.json "claim"
import os
have={c["property_id"] for c in checks["checks"]}
for pid in checks.get("claim",[]):
    f=f'/verif/checks/c{pid[1:]}/check.json'
    if pid not in have and os.path.exists(f):
        checks["checks"].append(json.load(open(f)))
checks["checks"].sort(key=lambda c:c["property_id"])
hooks_commits=subprocess.run("git -C /repo log --format=%H --grep='^verif:'",shell=True,capture_output=True,text=True).stdout.split()
m={"version":1,
 "setup_cmd":"SETUP",
 "hooks":{"guard":"verif (Go build tag)","enable":"go build -tags verif (bin/check does it on every invocation, from /repo's working tree via the replace directive in /verif/go.mod)",
  "baseline_off_cmd":"cd /repo && go test -mod=mod -json -vet=off -count=1 -timeout 25m ./...",
  "source_commits":hooks_commits,"add_only":True},
 "engines":[
  {"name":"core","path":"core/","serves_properties":[c["property_id"] for c in checks["checks"]],"kind_free_text":"harness: rank-addressable grammar enumerator (E1), parallel index-range exploration, deadline/tier handling, violation signatures vs known-findings.jsonl, replay files, evidence writer"},
 ],
 "checks":[], "not_applicable":[], "notes":checks.get("notes","")}
m["engines"] += checks.get("engines",[])
claimed=set()
for c in checks["checks"]:
    pid=c["property_id"]; claimed.add(pid)
    m["checks"].append({"property_id":pid,
      "quick_cmd":f"bin/check {pid} --tier quick","thorough_cmd":f"bin/check {pid} --tier thorough",
      "evidence_file":f"/verif/evidence/{pid}.json","replay_cmd_template":f"bin/check {pid} --replay {{path}}",
      "engine":c.get("engine","core"),
      "level_claimed":{"category":c["level"],"text":c["text"],"design_ref":c.get("design_ref","DESIGN.md §2 "+pid)},
      "level_note":c["note"],"technique":c["technique"]})
for p in props:
    if p["id"] not in claimed:
        m["not_applicable"].append({"property_id":p["id"],"reason":checks.get("unclaimed",{}).get(p["id"],"check not built yet (bounded-exhaustive formulation exists in DESIGN.md §2; no claim is made until the check runs clean)")})
cmds=" ".join(f"./cmd/c{p[1:]}" for p in sorted(claimed))
pre=" ".join(f"&& bin/check {p} --prebuild" for p in sorted(claimed) if p in ("C15","C16"))
m["setup_cmd"]=f"cd /verif && export GOFLAGS=-mod=mod GOPROXY=off && mkdir -p .build && go build -tags verif -o .build/ {cmds} {pre}"
json.dump(m,open('/verif/MANIFEST.json','w'),indent=1)
print("claimed",sorted(claimed))
